// Package rec is the evidence recorder shared by all property checks: it counts generated
// cases, de-duplicates non-trivial ones by hash, keeps samples and a class histogram, handles
// violations (replay files, known findings) and writes one JSON shard per process that the
// driver (/verif/check) merges into /verif/evidence/<id>.json.
package rec

import (
	"bufio"
	"encoding/json"
	"flag"
	"fmt"
	"hash/fnv"
	"os"
	"path/filepath"
	"runtime"
	"sort"
	"strconv"
	"strings"
	"sync"
	"time"
)

type Violation struct {
	Key    string `json:"key"`
	Desc   string `json:"desc"`
	Replay string `json:"replay"`
}

type Shard struct {
	Prop       string            `json:"prop"`
	Shard      int               `json:"shard"`
	Evals      int               `json:"evals"`
	Hashes     []string          `json:"hashes"`
	Classes    map[string]int    `json:"classes"`
	Samples    []json.RawMessage `json:"samples"`
	Rule       string            `json:"rule"`
	Assume     []string          `json:"assumptions"`
	Extra      map[string]any    `json:"extra"`
	Violations []Violation       `json:"violations"`
	Known      []string          `json:"known"`
	Infra      []string          `json:"infra"`
	Exhaustive bool              `json:"exhaustive"`
	WallS      float64           `json:"wall_s"`
	Completed  bool              `json:"completed"`
}

type Rec struct {
	mu        sync.Mutex
	s         Shard
	nt        map[uint64]struct{}
	perClass  map[string]int
	start     time.Time
	known     map[string]string // key -> description
	lastFail  *pendingFail
	MaxSample int
}

type pendingFail struct {
	key, desc string
	replay    any
}

type TB interface {
	Fatalf(format string, args ...any)
	Helper()
}

func Root() string {
	if d := os.Getenv("VERIF_ROOT"); d != "" {
		return d
	}
	_, f, _, _ := runtime.Caller(0)
	return filepath.Dir(filepath.Dir(f))
}

func Tier() string {
	if t := os.Getenv("VERIF_TIER"); t == "thorough" {
		return "thorough"
	}
	return "quick"
}
func Thorough() bool { return Tier() == "thorough" }

func envInt(k string, def int) int {
	if v, err := strconv.Atoi(os.Getenv(k)); err == nil {
		return v
	}
	return def
}
func ShardIdx() int { return envInt("VERIF_SHARD", 0) }
func NShards() int {
	n := envInt("VERIF_NSHARDS", 1)
	if n < 1 {
		n = 1
	}
	return n
}
func Seed() uint64 { return uint64(envInt("VERIF_SEED", 1)) }

// SubSeed derives a non-zero rapid seed from (VERIF_SEED, shard, name).
func SubSeed(name string) uint64 {
	h := fnv.New64a()
	fmt.Fprintf(h, "%d|%d|%s", Seed(), ShardIdx(), name)
	s := h.Sum64() >> 1
	if s == 0 {
		s = 1
	}
	return s
}

// Share splits a total case count over the shards (at least 1 per shard).
func Share(total int) int {
	n := total / NShards()
	if ShardIdx() < total%NShards() {
		n++
	}
	if n < 1 {
		n = 1
	}
	return n
}

// Mine reports whether deterministic work item i belongs to this shard.
func Mine(i int) bool { return i%NShards() == ShardIdx() }

// SetRapid configures pgregory.net/rapid (which only has flags) for the next rapid.Check call.
func SetRapid(name string, checks int) {
	flag.Set("rapid.checks", strconv.Itoa(checks))
	flag.Set("rapid.seed", strconv.FormatUint(SubSeed(name), 10))
	flag.Set("rapid.nofailfile", "true")
	flag.Set("rapid.shrinktime", "20s")
}

func New(prop string) *Rec {
	r := &Rec{nt: map[uint64]struct{}{}, perClass: map[string]int{}, start: time.Now(), known: map[string]string{}, MaxSample: 14}
	r.s.Prop = prop
	r.s.Shard = ShardIdx()
	r.s.Classes = map[string]int{}
	r.s.Extra = map[string]any{}
	r.loadKnown()
	return r
}

// KNOWN_FINDINGS.txt: lines "known: property=<id> key=<key> <what fails>" suppress exactly that
// key; lines starting with "fixed:" are documentation and suppress nothing.
func (r *Rec) loadKnown() {
	f, err := os.Open(filepath.Join(Root(), "KNOWN_FINDINGS.txt"))
	if err != nil {
		return
	}
	defer f.Close()
	sc := bufio.NewScanner(f)
	for sc.Scan() {
		l := strings.TrimSpace(sc.Text())
		if !strings.HasPrefix(l, "known:") {
			continue
		}
		fs := strings.Fields(l[len("known:"):])
		if len(fs) < 2 || fs[0] != "property="+r.s.Prop || !strings.HasPrefix(fs[1], "key=") {
			continue
		}
		r.known[strings.TrimPrefix(fs[1], "key=")] = strings.Join(fs[2:], " ")
	}
}

func Hash(key string) uint64 {
	h := fnv.New64a()
	h.Write([]byte(key))
	return h.Sum64()
}

func (r *Rec) Rule(s string)         { r.mu.Lock(); r.s.Rule = s; r.mu.Unlock() }
func (r *Rec) Assume(s ...string)    { r.mu.Lock(); r.s.Assume = append(r.s.Assume, s...); r.mu.Unlock() }
func (r *Rec) Extra(k string, v any) { r.mu.Lock(); r.s.Extra[k] = v; r.mu.Unlock() }
func (r *Rec) Exhaustive(b bool)     { r.mu.Lock(); r.s.Exhaustive = b; r.mu.Unlock() }
func (r *Rec) AddExtra(k string, n int) {
	r.mu.Lock()
	c, _ := r.s.Extra[k].(int)
	r.s.Extra[k] = c + n
	r.mu.Unlock()
}

// Case records one generated case.  class feeds the histogram; nontrivial says whether it meets
// the property's stated non-triviality rule; key identifies the case for de-duplication;
// sample (may be nil) is kept for the first few cases of each class.
func (r *Rec) Case(class string, nontrivial bool, key string, sample func() any) {
	r.mu.Lock()
	defer r.mu.Unlock()
	r.s.Evals++
	r.s.Classes[class]++
	if !nontrivial {
		r.s.Classes["(trivial)"]++
		return
	}
	r.nt[Hash(r.s.Prop+"|"+class+"|"+key)] = struct{}{}
	if sample != nil && r.perClass[class] < 2 && len(r.s.Samples) < r.MaxSample {
		r.perClass[class]++
		b, err := json.Marshal(map[string]any{"class": class, "case": sample()})
		if err == nil {
			r.s.Samples = append(r.s.Samples, b)
		}
	}
}

// Fail reports a violating case: if key is a listed known finding it is counted and the
// function returns true (the caller continues); otherwise the failure is remembered (the last
// one wins, which under rapid is the shrunk one) and t.Fatalf is called.
func (r *Rec) Fail(t TB, key string, replay any, format string, args ...any) bool {
	t.Helper()
	desc := fmt.Sprintf(format, args...)
	r.mu.Lock()
	if what, ok := r.known[key]; ok {
		line := fmt.Sprintf("property=%s key=%s %s", r.s.Prop, key, what)
		found := false
		for _, k := range r.s.Known {
			if k == line {
				found = true
			}
		}
		if !found {
			r.s.Known = append(r.s.Known, line)
		}
		r.mu.Unlock()
		return true
	}
	r.lastFail = &pendingFail{key, desc, replay}
	r.mu.Unlock()
	t.Fatalf("VIOLATION-CANDIDATE %s: %s", key, desc)
	return false
}

// Infra reports a failure of the machinery itself (never a property violation).
func (r *Rec) Infra(t TB, format string, args ...any) {
	t.Helper()
	msg := fmt.Sprintf(format, args...)
	r.mu.Lock()
	r.s.Infra = append(r.s.Infra, msg)
	r.mu.Unlock()
	t.Fatalf("INFRA: %s", msg)
}

// ClearFail forgets a remembered failure (used when a candidate was not confirmed).
func (r *Rec) ClearFail() { r.mu.Lock(); r.lastFail = nil; r.mu.Unlock() }

// Done marks normal completion; call it as the last statement of the test.
func (r *Rec) Done() { r.mu.Lock(); r.s.Completed = true; r.mu.Unlock() }

// Flush writes the shard file (and the replay file of a remembered failure).  Use with defer.
func (r *Rec) Flush() {
	r.mu.Lock()
	defer r.mu.Unlock()
	if f := r.lastFail; f != nil {
		dir := filepath.Join(Root(), "replay", r.s.Prop)
		os.MkdirAll(dir, 0o755)
		p := filepath.Join(dir, fmt.Sprintf("%016x.json", Hash(f.key)))
		b, _ := json.MarshalIndent(map[string]any{"property": r.s.Prop, "key": f.key, "desc": f.desc, "replay": f.replay}, "", " ")
		os.WriteFile(p, b, 0o644)
		r.s.Violations = append(r.s.Violations, Violation{f.key, f.desc, p})
		r.lastFail = nil
	}
	r.s.Hashes = r.s.Hashes[:0]
	for h := range r.nt {
		r.s.Hashes = append(r.s.Hashes, strconv.FormatUint(h, 16))
	}
	sort.Strings(r.s.Hashes)
	r.s.WallS = time.Since(r.start).Seconds()
	out := os.Getenv("VERIF_OUT")
	if out == "" {
		return
	}
	os.MkdirAll(out, 0o755)
	b, _ := json.Marshal(&r.s)
	os.WriteFile(filepath.Join(out, fmt.Sprintf("%s.shard%d.json", r.s.Prop, r.s.Shard)), b, 0o644)
}

// LoadReplay returns the "replay" member of a replay file when VERIF_REPLAY is set.
func LoadReplay(into any) (bool, error) {
	p := os.Getenv("VERIF_REPLAY")
	if p == "" {
		return false, nil
	}
	b, err := os.ReadFile(p)
	if err != nil {
		return true, err
	}
	var w struct {
		Replay json.RawMessage `json:"replay"`
	}
	if err := json.Unmarshal(b, &w); err != nil {
		return true, err
	}
	return true, json.Unmarshal(w.Replay, into)
}

// HasFail reports whether a failure is remembered and not yet flushed.
func (r *Rec) HasFail() bool { r.mu.Lock(); defer r.mu.Unlock(); return r.lastFail != nil }

// MineExcept distributes deterministic work item i over all shards except `excluded` (a shard
// dedicated to one long job, e.g. compiling the whole circuit); with fewer than 4 shards the
// exclusion is ignored.
func MineExcept(i, excluded int) bool {
	n := NShards()
	if n < 4 || excluded < 0 || excluded >= n {
		return Mine(i)
	}
	k := i % (n - 1)
	if k >= excluded {
		k++
	}
	return k == ShardIdx()
}

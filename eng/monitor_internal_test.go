package eng

import (
	"math/big"
	"testing"

	"pgregory.net/rapid"
)

// The bound monitor's transfer functions are part of the trusted base of C05/C02/C03: for random
// expression trees over leaves with small bounds, the computed bound must dominate the largest
// value the expression takes over all admissible leaf values (brute force).
func TestMonitorBoundsDominateBruteForce(t *testing.T) {
	rapid.Check(t, func(rt *rapid.T) {
		nl := rapid.IntRange(1, 4).Draw(rt, "leaves")
		ubs := make([]int64, nl)
		leaves := make([]*Node, nl)
		for i := range leaves {
			ubs[i] = int64(rapid.IntRange(0, 4).Draw(rt, "ub"))
			leaves[i] = &Node{kind: kLeaf, ub: big.NewInt(ubs[i])}
		}
		type ev func(v []int64) int64
		var gen func(depth int) (*Node, ev)
		gen = func(depth int) (*Node, ev) {
			if depth == 0 || rapid.IntRange(0, 3).Draw(rt, "leaf") == 0 {
				if rapid.IntRange(0, 4).Draw(rt, "const") == 0 {
					c := int64(rapid.IntRange(0, 5).Draw(rt, "c"))
					return &Node{kind: kConst, ub: big.NewInt(c)}, func([]int64) int64 { return c }
				}
				i := rapid.IntRange(0, nl-1).Draw(rt, "i")
				return leaves[i], func(v []int64) int64 { return v[i] }
			}
			a, ea := gen(depth - 1)
			b, eb := gen(depth - 1)
			switch rapid.IntRange(0, 3).Draw(rt, "op") {
			case 0:
				return &Node{kind: kAdd, a: a, b: b}, func(v []int64) int64 { return ea(v) + eb(v) }
			case 1:
				return &Node{kind: kMul, a: a, b: b}, func(v []int64) int64 { return ea(v) * eb(v) }
			case 2:
				c, ec := gen(depth - 1)
				return &Node{kind: kMulAcc, a: a, b: b, c: c}, func(v []int64) int64 { return ea(v) + eb(v)*ec(v) }
			default:
				return &Node{kind: kMax, a: a, b: b}, func(v []int64) int64 {
					// Select/Lookup2: either branch may be taken
					if x, y := ea(v), eb(v); x > y {
						return x
					} else {
						return y
					}
				}
			}
		}
		n, e := gen(rapid.IntRange(1, 4).Draw(rt, "depth"))
		bound := n.Bound(false)
		v := make([]int64, nl)
		var rec func(i int)
		best := int64(0)
		rec = func(i int) {
			if i == nl {
				if x := e(v); x > best {
					best = x
				}
				return
			}
			for x := int64(0); x <= ubs[i]; x++ {
				v[i] = x
				rec(i + 1)
			}
		}
		rec(0)
		if bound.Cmp(big.NewInt(best)) < 0 {
			rt.Fatalf("monitor bound %s is below the reachable value %d", bound, best)
		}
	})
}

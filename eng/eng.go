// Package eng is an adversarial evaluation engine for gnark circuits: it implements
// frontend.API / frontend.Compiler over BN254 fr.Element, evaluates Define on a concrete
// assignment, and classifies the outcome as ACCEPT / REJECT / REFUSED.  Unlike gnark's test
// engine it (a) aborts on the first failing assertion, (b) lets the caller replace the outputs
// of any hint call (a malicious prover is not bound to the shipped hint code), (c) can present
// itself to the circuit as a builder with a native range checker, with a commitment facility,
// or with neither, and (d) can track integer upper bounds of every value (monitor.go).
package eng

import (
	"crypto/sha256"
	"fmt"
	"hash/fnv"
	"math/big"
	"os"
	"reflect"
	"runtime"
	"strings"

	"github.com/consensys/gnark-crypto/ecc/bn254/fr"
	"github.com/consensys/gnark/constraint"
	"github.com/consensys/gnark/constraint/solver"
	"github.com/consensys/gnark/frontend"
	"github.com/consensys/gnark/frontend/schema"
	gl "github.com/wormhole-foundation/example-near-light-client/goldilocks"
)

// V is the engine's variable: a field element (plus an optional bound-monitor node).
type V struct {
	e fr.Element
	n *Node
	// t: taint depth. 0 = independent of any substituted hint output; 1 = a substituted output or
	// anything computed from it by arithmetic, bit decomposition, limb splitting or gnark's own
	// hints; each MulAdd/Reduce/Inverse hint on the way adds 1.
	t uint16
}

// Big returns the canonical integer value of v.
func (v *V) Big() *big.Int { var b big.Int; v.e.BigInt(&b); return &b }

type Mode int

const (
	ModePlain  Mode = iota // neither Rangechecker nor Committer -> repo selects bit decomposition
	ModeNative             // API implements frontend.Rangechecker
	ModeCommit             // API implements frontend.Committer (+ key/value store, deferred calls)
)

func (m Mode) String() string { return [...]string{"plain", "native", "commit"}[m] }

type Outcome int

const (
	Accept Outcome = iota
	Reject
	Refused
)

func (o Outcome) String() string { return [...]string{"ACCEPT", "REJECT", "REFUSED"}[o] }

// rejectPanic is the panic value used for a failed constraint.
type rejectPanic struct {
	msg  string
	site string
}

type Options struct {
	Mode           Mode
	ForceBitDecomp bool // run with USE_BIT_DECOMPOSITION_RANGE_CHECK=true
	Plan           Plan // dynamic hint index -> substitution
	Trace          *Trace
	Mon            *Monitor
	NoSite         bool // do not symbolise the rejecting call site (saves ~50us)
	LumpBits       bool // dishonest gnark bit-decomposition hint: digits := (value, 0, 0, ...)
	KeepChipCache  bool // do not empty the repository's process-wide chip cache around this run (as in a long-lived process)
	// FreeDiv: value of DivUnchecked(0, 0).  gnark's builders only emit res*b == a for it, so with a == b == 0
	// the result wire is unconstrained and a malicious prover may choose it (gnark's own solver and test engine
	// put 0 there).  nil = 0.
	FreeDiv *big.Int
}

type Result struct {
	Outcome       Outcome
	Msg           string
	Site          string // innermost repo frames of the failing assertion (REJECT) or panic (REFUSED)
	NHints        int
	NOps          int
	NAssert       int
	NCheck        int // calls of the native Rangechecker
	NBinary       int // calls of API.ToBinary
	NCommit       int // calls of Committer.Commit
	Injected      []Injection
	LumpedBits    int // gnark bit-decomposition hints answered dishonestly (LumpBits)
	TolerantHints int // honest hint functions that panicked/erred and were replaced by a tolerant copy
	// RejectTainted: the failing assertion had an operand computed (by arithmetic, bit
	// decomposition, gnark's own hints or limb splitting only) from a substituted hint output
	RejectTainted bool
	RejectDepth   int // smallest non-zero taint depth among the failing assertion's operands (0 = none)
	FreeDivs      int // DivUnchecked(0, 0) calls: unconstrained wires
}

type Engine struct {
	q        *big.Int
	kv       map[any]any
	deferred []func(frontend.API) error
	opt      *Options
	res      *Result
	mon      *Monitor
	self     frontend.API
}

type nativeEngine struct{ *Engine }

func (e nativeEngine) Check(v frontend.Variable, bits int) {
	e.res.NCheck++
	x := e.val(v)
	if x.Big().BitLen() > bits {
		e.rejectT(fmt.Sprintf("rangecheck: %s does not fit %d bits", x.Big().String(), bits), x)
	}
	if e.mon != nil {
		e.mon.onWidth(e.Engine, x, bits)
	}
}
func (e nativeEngine) Compiler() frontend.Compiler { return e }

type commitEngine struct{ *Engine }

func (e commitEngine) Commit(v ...frontend.Variable) (frontend.Variable, error) {
	e.res.NCommit++
	h := sha256.New()
	r := new(V)
	for _, x := range v {
		xv := e.val(x)
		b := xv.e.Bytes()
		h.Write(b[:])
		r.t = maxT(r.t, xv.t)
	}
	r.e.SetBytes(h.Sum(nil))
	if e.mon != nil {
		r.n = leafNode()
	}
	return r, nil
}
func (e commitEngine) Compiler() frontend.Compiler { return e }
func (e commitEngine) BatchInvert(in []frontend.Variable) []frontend.Variable {
	vs := make([]fr.Element, len(in))
	for i := range in {
		vs[i] = e.val(in[i]).e
	}
	inv := fr.BatchInvert(vs)
	out := make([]frontend.Variable, len(in))
	for i := range inv {
		o := e.newV(inv[i])
		o.t = e.val(in[i]).t
		out[i] = o
	}
	return out
}

func (e *Engine) newV(x fr.Element) *V {
	v := &V{e: x}
	if e.mon != nil {
		v.n = leafNode()
	}
	return v
}

// rejectT is reject for an assertion over the given operands.
func (e *Engine) rejectT(msg string, vs ...*V) {
	for _, v := range vs {
		e.noteT(v.t)
	}
	site := ""
	if !e.opt.NoSite {
		site = repoSite(3, 4)
	}
	panic(rejectPanic{msg, site})
}

func (e *Engine) noteT(t uint16) {
	if t != 0 && (e.res.RejectDepth == 0 || int(t) < e.res.RejectDepth) {
		e.res.RejectTainted = true
		e.res.RejectDepth = int(t)
	}
}

func maxT(a, b uint16) uint16 {
	if a > b {
		return a
	}
	return b
}

func (e *Engine) reject(msg string) {
	site := ""
	if !e.opt.NoSite {
		site = repoSite(3, 4)
	}
	panic(rejectPanic{msg, site})
}

// repoSite returns up to n innermost frames that belong to the repository under test.
func repoSite(skip, n int) string {
	var pcs [48]uintptr
	k := runtime.Callers(skip, pcs[:])
	fr := runtime.CallersFrames(pcs[:k])
	var parts []string
	for {
		f, more := fr.Next()
		if strings.Contains(f.Function, "example-near-light-client") {
			fn := f.Function[strings.LastIndex(f.Function, "/")+1:]
			parts = append(parts, fmt.Sprintf("%s:%d", fn, f.Line))
			if len(parts) == n {
				break
			}
		}
		if !more {
			break
		}
	}
	return strings.Join(parts, " < ")
}

func (e *Engine) val(i frontend.Variable) *V {
	switch t := i.(type) {
	case *V:
		return t
	case V:
		return &t
	case int:
		v := new(V)
		v.e.SetInt64(int64(t))
		return v
	case uint64:
		v := new(V)
		v.e.SetUint64(t)
		return v
	case *big.Int:
		v := new(V)
		v.e.SetBigInt(t)
		return v
	case big.Int:
		v := new(V)
		v.e.SetBigInt(&t)
		return v
	case interface{ ToBigIntRegular(*big.Int) *big.Int }:
		var b big.Int
		t.ToBigIntRegular(&b)
		v := new(V)
		v.e.SetBigInt(&b)
		return v
	case nil:
		panic("eng: nil variable")
	default:
		v := new(V)
		if _, err := v.e.SetInterface(i); err != nil {
			panic(fmt.Sprintf("eng: cannot convert %T: %v", i, err))
		}
		return v
	}
}

// nd returns the monitor node of v (constants get an exact node).
func (e *Engine) nd(v *V) *Node {
	if v.n == nil {
		v.n = &Node{kind: kConst, ub: v.Big()}
	}
	return v.n
}

func (e *Engine) Add(i1, i2 frontend.Variable, in ...frontend.Variable) frontend.Variable {
	e.res.NOps++
	a, b := e.val(i1), e.val(i2)
	r := new(V)
	r.e.Add(&a.e, &b.e)
	r.t = maxT(a.t, b.t)
	if e.mon != nil {
		r.n = &Node{kind: kAdd, a: e.nd(a), b: e.nd(b)}
	}
	for _, x := range in {
		xv := e.val(x)
		r.e.Add(&r.e, &xv.e)
		r.t = maxT(r.t, xv.t)
		if e.mon != nil {
			r.n = &Node{kind: kAdd, a: r.n, b: e.nd(xv)}
		}
	}
	return r
}
func (e *Engine) MulAcc(a, b, c frontend.Variable) frontend.Variable {
	e.res.NOps++
	av, bv, cv := e.val(a), e.val(b), e.val(c)
	r := new(V)
	r.e.Mul(&bv.e, &cv.e)
	r.e.Add(&r.e, &av.e)
	r.t = maxT(av.t, maxT(bv.t, cv.t))
	if e.mon != nil {
		r.n = &Node{kind: kMulAcc, a: e.nd(av), b: e.nd(bv), c: e.nd(cv)}
	}
	return r
}
func (e *Engine) Neg(i1 frontend.Variable) frontend.Variable {
	e.res.NOps++
	r := new(V)
	r.e.Neg(&e.val(i1).e)
	r.t = e.val(i1).t
	if e.mon != nil {
		r.n = leafNode()
	}
	return r
}
func (e *Engine) Sub(i1, i2 frontend.Variable, in ...frontend.Variable) frontend.Variable {
	e.res.NOps++
	r := new(V)
	r.e.Sub(&e.val(i1).e, &e.val(i2).e)
	r.t = maxT(e.val(i1).t, e.val(i2).t)
	for _, x := range in {
		r.e.Sub(&r.e, &e.val(x).e)
		r.t = maxT(r.t, e.val(x).t)
	}
	if e.mon != nil {
		r.n = leafNode()
	}
	return r
}
func (e *Engine) Mul(i1, i2 frontend.Variable, in ...frontend.Variable) frontend.Variable {
	e.res.NOps++
	a, b := e.val(i1), e.val(i2)
	r := new(V)
	r.e.Mul(&a.e, &b.e)
	r.t = maxT(a.t, b.t)
	if e.mon != nil {
		r.n = &Node{kind: kMul, a: e.nd(a), b: e.nd(b)}
	}
	for _, x := range in {
		xv := e.val(x)
		r.e.Mul(&r.e, &xv.e)
		r.t = maxT(r.t, xv.t)
		if e.mon != nil {
			r.n = &Node{kind: kMul, a: r.n, b: e.nd(xv)}
		}
	}
	return r
}
func (e *Engine) DivUnchecked(i1, i2 frontend.Variable) frontend.Variable {
	a, b := e.val(i1), e.val(i2)
	if a.e.IsZero() && b.e.IsZero() {
		e.res.FreeDivs++
		var x fr.Element
		if e.opt.FreeDiv != nil {
			x.SetBigInt(e.opt.FreeDiv)
		}
		o := e.newV(x)
		o.t = maxT(a.t, b.t)
		return o
	}
	return e.Div(i1, i2)
}
func (e *Engine) Div(i1, i2 frontend.Variable) frontend.Variable {
	e.res.NOps++
	b := e.val(i2)
	if b.e.IsZero() {
		e.rejectT("div by zero", b)
	}
	var r fr.Element
	r.Inverse(&b.e)
	r.Mul(&r, &e.val(i1).e)
	o := e.newV(r)
	o.t = maxT(b.t, e.val(i1).t)
	return o
}
func (e *Engine) Inverse(i1 frontend.Variable) frontend.Variable {
	e.res.NOps++
	b := e.val(i1)
	if b.e.IsZero() {
		e.rejectT("inverse of zero", b)
	}
	var r fr.Element
	r.Inverse(&b.e)
	o := e.newV(r)
	o.t = b.t
	return o
}
func (e *Engine) ToBinary(i1 frontend.Variable, n ...int) []frontend.Variable {
	e.res.NBinary++
	nb := e.q.BitLen()
	if len(n) == 1 {
		nb = n[0]
	}
	x := e.val(i1)
	b := x.Big()
	if b.BitLen() > nb {
		e.rejectT(fmt.Sprintf("ToBinary: %s does not fit %d bits", b.String(), nb), x)
	}
	if e.mon != nil {
		e.mon.onWidth(e, x, nb)
	}
	out := make([]frontend.Variable, nb)
	for i := range out {
		v := new(V)
		v.e.SetUint64(uint64(b.Bit(i)))
		v.t = x.t
		if e.mon != nil {
			v.n = &Node{kind: kLeaf, ub: one}
		}
		out[i] = v
	}
	return out
}
func (e *Engine) boolv(i frontend.Variable) bool {
	v := e.val(i)
	if v.e.IsZero() {
		return false
	}
	if v.e.IsOne() {
		return true
	}
	e.rejectT("not boolean: "+v.e.String(), v)
	return false
}
func (e *Engine) FromBinary(b ...frontend.Variable) frontend.Variable {
	e.res.NOps++
	r := new(big.Int)
	for i, x := range b {
		if e.boolv(x) {
			r.SetBit(r, i, 1)
		}
	}
	v := new(V)
	v.e.SetBigInt(r)
	v.t = e.anyT(b...)
	if e.mon != nil {
		ub := new(big.Int).Lsh(one, uint(len(b)))
		v.n = &Node{kind: kLeaf, ub: ub.Sub(ub, one)}
	}
	return v
}

var one = big.NewInt(1)

func (e *Engine) anyT(xs ...frontend.Variable) uint16 {
	var t uint16
	for _, x := range xs {
		if v, ok := x.(*V); ok && v.t > t {
			t = v.t
		}
	}
	return t
}
func (e *Engine) tv(v *V, xs ...frontend.Variable) *V { v.t = e.anyT(xs...); return v }

func (e *Engine) bv(b bool) *V {
	v := new(V)
	if b {
		v.e.SetOne()
	}
	if e.mon != nil {
		v.n = &Node{kind: kLeaf, ub: one}
	}
	return v
}
func (e *Engine) Xor(a, b frontend.Variable) frontend.Variable {
	return e.tv(e.bv(e.boolv(a) != e.boolv(b)), a, b)
}
func (e *Engine) Or(a, b frontend.Variable) frontend.Variable {
	x, y := e.boolv(a), e.boolv(b)
	return e.tv(e.bv(x || y), a, b)
}
func (e *Engine) And(a, b frontend.Variable) frontend.Variable {
	x, y := e.boolv(a), e.boolv(b)
	return e.tv(e.bv(x && y), a, b)
}
func (e *Engine) Select(b frontend.Variable, i1, i2 frontend.Variable) frontend.Variable {
	e.res.NOps++
	x, y := e.val(i1), e.val(i2)
	res := y
	if e.boolv(b) {
		res = x
	}
	if e.mon != nil {
		return e.tv(&V{e: res.e, n: &Node{kind: kMax, a: e.nd(x), b: e.nd(y)}}, b, i1, i2)
	}
	return e.tv(&V{e: res.e}, b, i1, i2)
}
func (e *Engine) Lookup2(b0, b1 frontend.Variable, i0, i1, i2, i3 frontend.Variable) frontend.Variable {
	e.res.NOps++
	idx := 0
	if e.boolv(b0) {
		idx |= 1
	}
	if e.boolv(b1) {
		idx |= 2
	}
	vs := []*V{e.val(i0), e.val(i1), e.val(i2), e.val(i3)}
	if e.mon != nil {
		m1 := &Node{kind: kMax, a: e.nd(vs[0]), b: e.nd(vs[1])}
		m2 := &Node{kind: kMax, a: e.nd(vs[2]), b: e.nd(vs[3])}
		return e.tv(&V{e: vs[idx].e, n: &Node{kind: kMax, a: m1, b: m2}}, b0, b1, i0, i1, i2, i3)
	}
	return e.tv(&V{e: vs[idx].e}, b0, b1, i0, i1, i2, i3)
}
func (e *Engine) IsZero(i1 frontend.Variable) frontend.Variable {
	e.res.NOps++
	return e.tv(e.bv(e.val(i1).e.IsZero()), i1)
}
func (e *Engine) Cmp(i1, i2 frontend.Variable) frontend.Variable {
	c := e.val(i1).e.Cmp(&e.val(i2).e)
	v := new(V)
	v.e.SetInt64(int64(c))
	e.tv(v, i1, i2)
	if e.mon != nil {
		v.n = leafNode()
	}
	return v
}
func (e *Engine) AssertIsEqual(i1, i2 frontend.Variable) {
	e.res.NAssert++
	a, b := e.val(i1), e.val(i2)
	if e.mon != nil {
		e.mon.onEqual(e, a, b)
	}
	if !a.e.Equal(&b.e) {
		e.rejectT(fmt.Sprintf("assertIsEqual: %s != %s", a.e.String(), b.e.String()), a, b)
	}
}
func (e *Engine) AssertIsDifferent(i1, i2 frontend.Variable) {
	e.res.NAssert++
	if e.val(i1).e.Equal(&e.val(i2).e) {
		e.rejectT("assertIsDifferent", e.val(i1), e.val(i2))
	}
}
func (e *Engine) AssertIsBoolean(i1 frontend.Variable) {
	e.res.NAssert++
	x := e.val(i1)
	e.boolv(x)
	if e.mon != nil {
		e.mon.onWidth(e, x, 1)
	}
}
func (e *Engine) AssertIsLessOrEqual(v frontend.Variable, bound frontend.Variable) {
	e.res.NAssert++
	if e.val(v).e.Cmp(&e.val(bound).e) > 0 {
		e.rejectT("assertIsLessOrEqual", e.val(v), e.val(bound))
	}
}
func (e *Engine) Println(a ...frontend.Variable)  {}
func (e *Engine) Compiler() frontend.Compiler     { return e }
func (e *Engine) MarkBoolean(v frontend.Variable) {}
func (e *Engine) IsBoolean(v frontend.Variable) bool {
	x := e.val(v)
	return x.e.IsZero() || x.e.IsOne()
}

func (e *Engine) NewHintForId(id solver.HintID, nbOutputs int, inputs ...frontend.Variable) ([]frontend.Variable, error) {
	if f := solver.GetRegisteredHint(id); f != nil {
		return e.NewHint(f, nbOutputs, inputs...)
	}
	return nil, fmt.Errorf("no hint registered for id %d", id)
}
func (e *Engine) ConstantValue(v frontend.Variable) (*big.Int, bool) {
	switch v.(type) {
	case *V, V:
		return nil, false
	}
	return e.val(v).Big(), true
}
func (e *Engine) Field() *big.Int                                  { return e.q }
func (e *Engine) FieldBitLen() int                                 { return e.q.BitLen() }
func (e *Engine) Defer(cb func(api frontend.API) error)            { e.deferred = append(e.deferred, cb) }
func (e *Engine) InternalVariable(wireID uint32) frontend.Variable { panic("eng: unsupported") }
func (e *Engine) ToCanonicalVariable(frontend.Variable) frontend.CanonicalVariable {
	panic("eng: unsupported")
}
func (e *Engine) SetGkrInfo(constraint.GkrInfo) error { return fmt.Errorf("eng: unsupported") }
func (e *Engine) AddBlueprint(b constraint.Blueprint) constraint.BlueprintID {
	panic("eng: unsupported")
}
func (e *Engine) AddInstruction(bID constraint.BlueprintID, calldata []uint32) []uint32 {
	panic("eng: unsupported")
}
func (e *Engine) SetKeyValue(key, value any) { e.kv[key] = value }
func (e *Engine) GetKeyValue(key any) any    { return e.kv[key] }
func (e *Engine) MustBeLessOrEqCst(aBits []frontend.Variable, bound *big.Int, aForDebug frontend.Variable) {
	v := new(big.Int)
	for i, b := range aBits {
		if e.boolv(b) {
			v.SetBit(v, i, 1)
		}
	}
	if v.Cmp(bound) > 0 {
		e.noteT(maxT(e.anyT(aBits...), e.anyT(aForDebug)))
		e.reject("MustBeLessOrEqCst")
	}
}

var tVariable = reflect.ValueOf(struct{ A frontend.Variable }{}).FieldByName("A").Type()

// DeepCopy clones a circuit value so that no slice or pointer reachable through exported
// fields is shared with the original (templates and assignments built from one deserialised
// proof alias each other's slices).
func DeepCopy(c frontend.Circuit) frontend.Circuit {
	v := reflect.ValueOf(c)
	if v.Kind() != reflect.Ptr {
		panic("eng: circuit must be a pointer")
	}
	return deepCopy(v).Interface().(frontend.Circuit)
}

func deepCopy(v reflect.Value) reflect.Value {
	switch v.Kind() {
	case reflect.Ptr:
		if v.IsNil() {
			return v
		}
		if v.Type() == reflect.TypeOf((*big.Int)(nil)) {
			return reflect.ValueOf(new(big.Int).Set(v.Interface().(*big.Int)))
		}
		n := reflect.New(v.Type().Elem())
		n.Elem().Set(deepCopy(v.Elem()))
		return n
	case reflect.Struct:
		n := reflect.New(v.Type()).Elem()
		n.Set(v)
		if v.Type() == reflect.TypeOf(big.Int{}) {
			return n
		}
		for i := 0; i < v.NumField(); i++ {
			if !n.Field(i).CanSet() || v.Type().Field(i).Tag.Get("gnark") == "-" {
				continue // unexported or configuration (not part of the witness): shared as is
			}
			n.Field(i).Set(deepCopy(v.Field(i)))
		}
		return n
	case reflect.Slice:
		if v.IsNil() {
			return v
		}
		n := reflect.MakeSlice(v.Type(), v.Len(), v.Len())
		for i := 0; i < v.Len(); i++ {
			n.Index(i).Set(deepCopy(v.Index(i)))
		}
		return n
	case reflect.Array:
		n := reflect.New(v.Type()).Elem()
		for i := 0; i < v.Len(); i++ {
			n.Index(i).Set(deepCopy(v.Index(i)))
		}
		return n
	case reflect.Interface:
		if v.IsNil() {
			return v
		}
		inner := v.Elem()
		if inner.Kind() == reflect.Ptr && inner.Type() == reflect.TypeOf((*big.Int)(nil)) && !inner.IsNil() {
			n := reflect.New(v.Type()).Elem()
			n.Set(reflect.ValueOf(new(big.Int).Set(inner.Interface().(*big.Int))))
			return n
		}
		return v
	default:
		return v
	}
}

// Leaves returns the values of all frontend.Variable leaves of a circuit value in schema order.
func Leaves(c frontend.Circuit) (vals []reflect.Value, names []string, err error) {
	_, err = schema.Walk(c, tVariable, func(f schema.LeafInfo, t reflect.Value) error {
		vals = append(vals, t)
		names = append(names, f.FullName())
		return nil
	})
	return
}

// Run evaluates template.Define on the assignment's leaf values.
func Run(template, assignment frontend.Circuit, opt Options) (res Result) {
	e := &Engine{q: fr.Modulus(), kv: map[any]any{}, opt: &opt, res: &res, mon: opt.Mon}
	if !opt.KeepChipCache {
		gl.VerifResetChips()
	}
	if opt.ForceBitDecomp {
		old, had := os.LookupEnv("USE_BIT_DECOMPOSITION_RANGE_CHECK")
		os.Setenv("USE_BIT_DECOMPOSITION_RANGE_CHECK", "true")
		defer func() {
			if had {
				os.Setenv("USE_BIT_DECOMPOSITION_RANGE_CHECK", old)
			} else {
				os.Unsetenv("USE_BIT_DECOMPOSITION_RANGE_CHECK")
			}
		}()
	} else if os.Getenv("USE_BIT_DECOMPOSITION_RANGE_CHECK") != "" {
		os.Unsetenv("USE_BIT_DECOMPOSITION_RANGE_CHECK")
	}
	defer func() {
		if r := recover(); r != nil {
			if rj, ok := r.(rejectPanic); ok {
				res.Outcome, res.Msg, res.Site = Reject, rj.msg, rj.site
				return
			}
			res.Outcome = Refused
			res.Msg = fmt.Sprint(r)
			res.Site = repoSite(4, 3)
		}
	}()
	defer func() {
		if !opt.KeepChipCache {
			gl.VerifResetChips()
		}
	}()

	avals, _, err := Leaves(assignment)
	if err != nil {
		res.Outcome, res.Msg = Refused, "assignment walk: "+err.Error()
		return
	}
	c := DeepCopy(template)
	i := 0
	var werr error
	_, err = schema.Walk(c, tVariable, func(f schema.LeafInfo, t reflect.Value) error {
		if i >= len(avals) {
			werr = fmt.Errorf("assignment has %d leaves, template has more", len(avals))
			return werr
		}
		a := avals[i]
		if a.IsNil() {
			werr = fmt.Errorf("missing assignment for %s", f.FullName())
			return werr
		}
		x := &V{e: e.val(a.Interface()).e}
		if e.mon != nil {
			x.n = leafNode()
			x.n.input = f.FullName()
		}
		t.Set(reflect.ValueOf(x))
		i++
		return nil
	})
	if err == nil && i != len(avals) {
		err = fmt.Errorf("assignment has %d leaves, template has %d", len(avals), i)
	}
	if err != nil {
		res.Outcome, res.Msg = Refused, "witness/template mismatch: "+err.Error()
		return
	}

	var api frontend.API = e
	switch opt.Mode {
	case ModeNative:
		api = nativeEngine{e}
	case ModeCommit:
		api = commitEngine{e}
	}
	e.self = api
	if err := c.Define(api); err != nil {
		res.Outcome, res.Msg = Refused, "define: "+err.Error()
		return
	}
	for i := 0; i < len(e.deferred); i++ {
		if err := e.deferred[i](api); err != nil {
			res.Outcome, res.Msg = Refused, "deferred: "+err.Error()
			return
		}
	}
	res.Outcome = Accept
	return
}

// siteHash hashes the program counters of the current call stack (cheap static call-site id).
func siteHash(skip int, keep *[]uintptr) uint64 {
	var pcs [64]uintptr
	n := runtime.Callers(skip, pcs[:])
	h := fnv.New64a()
	var b [8]byte
	for _, pc := range pcs[:n] {
		for k := 0; k < 8; k++ {
			b[k] = byte(pc >> (8 * k))
		}
		h.Write(b[:])
	}
	if keep != nil {
		*keep = append([]uintptr(nil), pcs[:n]...)
	}
	return h.Sum64()
}

// ValueOf returns the canonical integer value of an engine variable or constant.
func ValueOf(v frontend.Variable) *big.Int {
	e := &Engine{}
	return e.val(v).Big()
}

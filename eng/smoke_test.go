package eng_test

import (
	"testing"
	"time"

	"verif/corp"
	"verif/eng"
)

func TestSmokeWholeVerifier(t *testing.T) {
	for _, m := range []eng.Mode{eng.ModeNative, eng.ModePlain, eng.ModeCommit} {
		st := time.Now()
		r := eng.Run(corp.Circuit("A1"), corp.Circuit("A1"), eng.Options{Mode: m})
		t.Logf("%v: %v %s hints=%d ops=%d asserts=%d checks=%d tobin=%d in %v", m, r.Outcome, r.Msg, r.NHints, r.NOps, r.NAssert, r.NCheck, r.NBinary, time.Since(st))
		if r.Outcome != eng.Accept {
			t.Fatalf("%v: %v %s @ %s", m, r.Outcome, r.Msg, r.Site)
		}
	}
}

package eng_test

import (
	"fmt"
	"math/big"
	"testing"

	"verif/cs"
	"verif/eng"
	"verif/gad"

	"github.com/consensys/gnark-crypto/ecc/bn254/fr"
	"github.com/consensys/gnark/frontend"
	"pgregory.net/rapid"
)

// Engine validation: random straight-line programs over the raw frontend.API are evaluated on
// the engine; gnark's own test engine and compiled R1CS / SCS systems must then accept the same
// inputs with the engine's outputs asserted as expected values.  A disagreement means the
// evaluation engine (the trusted base of most checks) misrepresents gnark's semantics.

type apiOp struct {
	Op      string
	A, B, C int
	N       int
}

func runAPIProg(ops []apiOp, nIn int) gad.Fn {
	return func(api frontend.API, in []frontend.Variable) []frontend.Variable {
		pool := append([]frontend.Variable{}, in...)
		pool = append(pool, 0, 1, 7, new(big.Int).Sub(fr.Modulus(), big.NewInt(1))) // constants take part too
		var bools []frontend.Variable
		for _, o := range ops {
			a, b, c := pool[o.A%len(pool)], pool[o.B%len(pool)], pool[o.C%len(pool)]
			switch o.Op {
			case "add":
				pool = append(pool, api.Add(a, b))
			case "add3":
				pool = append(pool, api.Add(a, b, c))
			case "sub":
				pool = append(pool, api.Sub(a, b))
			case "neg":
				pool = append(pool, api.Neg(a))
			case "mul":
				pool = append(pool, api.Mul(a, b))
			case "mulacc":
				pool = append(pool, api.MulAcc(api.Mul(a, 1), b, c))
			case "iszero":
				// booleans are derived from inputs only: gnark 0.9.1's SCS builder mis-compiles Or with a
				// constant operand (observed: Or(x, IsZero(0)) unsatisfiable), which is not what is validated here
				z := api.IsZero(api.Add(in[o.A%len(in)], api.Mul(in[o.B%len(in)], o.N%3)))
				pool = append(pool, z)
				bools = append(bools, z)
			case "select":
				if len(bools) > 0 {
					pool = append(pool, api.Select(bools[o.N%len(bools)], a, b))
				}
			case "lookup2":
				if len(bools) > 1 {
					pool = append(pool, api.Lookup2(bools[o.N%len(bools)], bools[(o.N+1)%len(bools)], a, b, c, pool[(o.A+o.B)%len(pool)]))
				}
			case "bits":
				// decompose the low bits of a product of booleans-and-small values: use IsZero outputs only
				if len(bools) > 0 {
					v := api.Add(bools[o.N%len(bools)], api.Mul(bools[(o.N+1)%len(bools)], 2), api.Mul(bools[(o.N+2)%len(bools)], 4))
					bs := api.ToBinary(v, 3+o.N%5)
					bools = append(bools, bs[0], bs[1])
					pool = append(pool, api.FromBinary(bs...))
				}
			case "logic":
				if len(bools) > 1 {
					x, y := bools[o.N%len(bools)], bools[(o.N+1)%len(bools)]
					r := []frontend.Variable{api.And(x, y), api.Or(x, y), api.Xor(x, y)}[o.N%3]
					bools = append(bools, r)
					pool = append(pool, r)
				}
			case "div":
				d := api.Add(api.Mul(b, b), 1) // avoid the zero divisor except by accident
				nz := api.IsZero(d)
				d = api.Add(d, nz)
				pool = append(pool, api.Div(a, d))
			case "inverse":
				d := api.Add(api.Mul(a, a), 3)
				d = api.Add(d, api.IsZero(d))
				pool = append(pool, api.Inverse(d))
			}
		}
		return pool[nIn+4:]
	}
}

func TestEngineAgreesWithGnark(t *testing.T) {
	names := []string{"add", "add3", "sub", "neg", "mul", "mulacc", "iszero", "iszero", "select", "lookup2", "bits", "logic", "div", "inverse"}
	n, skipped := 0, 0
	rapid.Check(t, func(rt *rapid.T) {
		nIn := rapid.IntRange(1, 4).Draw(rt, "inputs")
		in := make([]*big.Int, nIn)
		for i := range in {
			switch rapid.IntRange(0, 3).Draw(rt, "kind") {
			case 0:
				in[i] = big.NewInt(int64(rapid.IntRange(0, 3).Draw(rt, "small")))
			case 1:
				in[i] = new(big.Int).Sub(fr.Modulus(), big.NewInt(int64(rapid.IntRange(1, 3).Draw(rt, "neg"))))
			default:
				bs := rapid.SliceOfN(rapid.Byte(), 32, 32).Draw(rt, "bytes")
				in[i] = new(big.Int).Mod(new(big.Int).SetBytes(bs), fr.Modulus())
			}
		}
		var ops []apiOp
		for i, k := 0, rapid.IntRange(1, 14).Draw(rt, "steps"); i < k; i++ {
			ops = append(ops, apiOp{rapid.SampledFrom(names).Draw(rt, "op"), rapid.IntRange(0, 40).Draw(rt, "a"), rapid.IntRange(0, 40).Draw(rt, "b"), rapid.IntRange(0, 40).Draw(rt, "c"), rapid.IntRange(0, 40).Draw(rt, "n")})
		}
		fn := runAPIProg(ops, nIn)
		for _, m := range []eng.Mode{eng.ModePlain, eng.ModeNative, eng.ModeCommit} {
			res, out := gad.Run(eng.Options{Mode: m}, in, fn)
			if res.Outcome != eng.Accept {
				rt.Fatalf("engine (%v) does not accept an assertion-free program: %v %s", m, res.Outcome, res.Msg)
			}
			if m != eng.ModePlain {
				continue
			}
			if err := cs.GnarkEngine(cs.MechForcedBits, in, out, fn); err != nil {
				rt.Fatalf("gnark test engine disagrees with the evaluation engine on %v inputs %v: %v", ops, in, err)
			}
			for _, kind := range []cs.Kind{cs.R1CS, cs.SCS} {
				sys, err := cs.Compile(kind, cs.MechForcedBits, len(in), len(out), fn)
				if err != nil {
					// gnark 0.9.1's builders panic on a few degenerate expressions (e.g. "div by 0" in
					// scs.splitProd for products with a zero coefficient); not an engine matter
					skipped++
					continue
				}
				if err := sys.Solve(in, out); err != nil {
					rt.Fatalf("compiled %v system disagrees with the evaluation engine on %v inputs %v: %v", kind, ops, in, err)
				}
				// and a wrong expected output must be rejected
				if len(out) > 0 {
					bad := append([]*big.Int{}, out...)
					bad[len(bad)-1] = new(big.Int).Mod(new(big.Int).Add(bad[len(bad)-1], big.NewInt(1)), fr.Modulus())
					if sys.Solve(in, bad) == nil {
						rt.Fatalf("compiled %v system accepts a wrong output", kind)
					}
				}
			}
		}
		n++
	})
	fmt.Println("engine validation programs:", n, "compiles skipped because gnark refused the program:", skipped)
	if skipped*10 > n*2 {
		t.Fatalf("too many programs refused by gnark (%d of %d compiles)", skipped, 2*n)
	}
}

package eng_test

import (
	"fmt"
	"regexp"
	"testing"

	"verif/corp"
	"verif/eng"
)

func TestLeafNames(t *testing.T) {
	_, names, _ := eng.Leaves(corp.Circuit("A1"))
	re := regexp.MustCompile(`_\d+`)
	cnt := map[string]int{}
	var order []string
	for _, n := range names {
		k := re.ReplaceAllString(n, "_#")
		if cnt[k] == 0 {
			order = append(order, k)
		}
		cnt[k]++
	}
	for _, k := range order {
		fmt.Println(cnt[k], k)
	}
	fmt.Println(len(names), names[0], names[len(names)-1])
}

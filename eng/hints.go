package eng

import (
	"fmt"
	"math/big"
	"runtime"
	"strings"

	"github.com/consensys/gnark-crypto/ecc/bn254/fr"
	"github.com/consensys/gnark/constraint/solver"
	"github.com/consensys/gnark/frontend"
)

// HintKind classifies the prover-supplied-value sites of the Goldilocks chip.
type HintKind uint8

const (
	HintOther HintKind = iota
	HintMulAdd
	HintReduce
	HintSplit
	HintInverse
)

func (k HintKind) String() string {
	return [...]string{"other", "MulAdd", "Reduce", "SplitLimbs", "Inverse"}[k]
}

func kindOf(name string) HintKind {
	switch {
	case strings.HasSuffix(name, "goldilocks.MulAddHint"):
		return HintMulAdd
	case strings.HasSuffix(name, "goldilocks.ReduceHint"):
		return HintReduce
	case strings.HasSuffix(name, "goldilocks.SplitLimbsHint"):
		return HintSplit
	case strings.HasSuffix(name, "goldilocks.InverseHint"):
		return HintInverse
	}
	return HintOther
}

var glP = new(big.Int).SetUint64(0xffffffff00000001)

// tolerant computes what an honest prover would supply, without the domain checks of the
// shipped hint functions (used when those panic or error on out-of-domain operands).
func tolerant(kind HintKind, in []*big.Int, nOut int) []*big.Int {
	out := make([]*big.Int, nOut)
	for i := range out {
		out[i] = new(big.Int)
	}
	switch kind {
	case HintMulAdd:
		x := new(big.Int).Mul(in[0], in[1])
		x.Add(x, in[2])
		out[0].DivMod(x, glP, out[1])
	case HintReduce:
		out[0].DivMod(in[0], glP, out[1])
	case HintSplit:
		out[0].Rsh(in[0], 32)
		out[1].And(in[0], big.NewInt(0xffffffff))
	case HintInverse:
		x := new(big.Int).Mod(in[0], glP)
		if x.Sign() != 0 {
			out[0].ModInverse(x, glP)
		}
	}
	return out
}

// Subst describes how the outputs of one hint call are replaced.
//
//	wrap:    (X + K*r) div p, (X + K*r) mod p          (MulAdd/Reduce; X = a*b+c or x)
//	shift:   (q - K, rem + K*p)                          (MulAdd/Reduce)
//	solve:   remainder := Val, quotient := (X - Val)/p in the BN254 field   (MulAdd/Reduce)
//	limbs:   (hi - K, lo + K*2^32) if Neg==false else (hi + K, lo - K*2^32) (SplitLimbs)
//	limbsolve: lo := Val, hi := (x - Val)/2^32 in the field               (SplitLimbs)
//	invp:    inverse + K*p                                (Inverse)
//	set:     outputs := Vals (any kind)
type Subst struct {
	Strategy string
	K        *big.Int
	Neg      bool
	Val      *big.Int
	Vals     []*big.Int
}

type Plan map[int]Subst

type Injection struct {
	Index   int
	Kind    HintKind
	Site    uint64
	Inputs  []*big.Int
	Honest  []*big.Int
	Subst   []*big.Int
	Differs bool   // substituted tuple != honest tuple (mod r)
	Caller  string // repo function that requested the hint (e.g. goldilocks.(*Chip).MulAdd)
}

func (s Subst) apply(q *big.Int, kind HintKind, in, honest []*big.Int) []*big.Int {
	out := make([]*big.Int, len(honest))
	for i := range out {
		out[i] = new(big.Int).Set(honest[i])
	}
	X := new(big.Int)
	switch kind {
	case HintMulAdd:
		X.Mul(in[0], in[1])
		X.Add(X, in[2])
	case HintReduce, HintSplit, HintInverse:
		X.Set(in[0])
	}
	k := s.K
	if k == nil {
		k = big.NewInt(1)
	}
	modq := func(x *big.Int) *big.Int { return x.Mod(x, q) }
	switch s.Strategy {
	case "wrap":
		if kind == HintMulAdd || kind == HintReduce {
			y := new(big.Int).Mul(k, q)
			y.Add(y, X)
			out[0].DivMod(y, glP, out[1])
		}
	case "shift":
		if kind == HintMulAdd || kind == HintReduce {
			out[0].Sub(honest[0], k)
			modq(out[0])
			out[1].Add(honest[1], new(big.Int).Mul(k, glP))
			modq(out[1])
		}
	case "solve":
		if kind == HintMulAdd || kind == HintReduce {
			out[1].Set(s.Val)
			modq(out[1])
			d := new(big.Int).Sub(X, out[1])
			d.Mul(d, new(big.Int).ModInverse(glP, q))
			out[0] = modq(d)
		}
	case "limbs":
		if kind == HintSplit {
			sh := new(big.Int).Lsh(k, 32)
			if s.Neg {
				out[0].Add(honest[0], k)
				out[1].Sub(honest[1], sh)
			} else {
				out[0].Sub(honest[0], k)
				out[1].Add(honest[1], sh)
			}
			modq(out[0])
			modq(out[1])
		}
	case "limbsolve":
		if kind == HintSplit {
			out[1].Set(s.Val)
			modq(out[1])
			d := new(big.Int).Sub(X, out[1])
			d.Mul(d, new(big.Int).ModInverse(new(big.Int).Lsh(one, 32), q))
			out[0] = modq(d)
		}
	case "invp":
		if kind == HintInverse {
			out[0].Add(honest[0], new(big.Int).Mul(k, glP))
			modq(out[0])
		}
	case "set":
		for i := range out {
			if i < len(s.Vals) {
				out[i] = modq(new(big.Int).Set(s.Vals[i]))
			}
		}
	default:
		panic("eng: unknown substitution strategy " + s.Strategy)
	}
	return out
}

// Trace records, for every dynamic hint call, the static call site it came from.
type Trace struct {
	Recs  []TraceRec
	Sites map[uint64]*SiteInfo
	Order []uint64 // site ids in first-occurrence order
	// KeepIO, when set, keeps inputs/outputs of the listed dynamic indices
	KeepIO map[int]bool
	IO     map[int][2][]*big.Int
}

type TraceRec struct {
	Site uint64
	Kind HintKind
}

type SiteInfo struct {
	ID    uint64
	Kind  HintKind
	Name  string
	Count int
	Dyn   []int32 // dynamic indices of all occurrences
	pcs   []uintptr
}

func NewTrace() *Trace { return &Trace{Sites: map[uint64]*SiteInfo{}} }

// Stack symbolises the representative call stack of the site (repo frames only, innermost first).
func (s *SiteInfo) Stack() []string {
	fr := runtime.CallersFrames(s.pcs)
	var parts []string
	for {
		f, more := fr.Next()
		if strings.Contains(f.Function, "example-near-light-client") {
			fn := f.Function[strings.LastIndex(f.Function, "/")+1:]
			parts = append(parts, fmt.Sprintf("%s:%d", fn, f.Line))
		}
		if !more {
			break
		}
	}
	return parts
}

// Group returns the n innermost repo frames without line numbers of the outermost ones; used to
// cluster full stacks into static site groups.
func (s *SiteInfo) Group(n int) string {
	st := s.Stack()
	if len(st) > n {
		st = st[:n]
	}
	return s.Kind.String() + "@" + strings.Join(st, "<")
}

func (e *Engine) NewHint(f solver.Hint, nbOutputs int, inputs ...frontend.Variable) ([]frontend.Variable, error) {
	idx := e.res.NHints
	e.res.NHints++
	name := solver.GetHintName(f)
	kind := kindOf(name)
	var site uint64
	sub, injected := e.opt.Plan[idx]
	if e.opt.Trace != nil || injected {
		var keep []uintptr
		var kp *[]uintptr
		if e.opt.Trace != nil {
			kp = &keep
		}
		site = siteHash(3, kp)
		if tr := e.opt.Trace; tr != nil {
			tr.Recs = append(tr.Recs, TraceRec{site, kind})
			si := tr.Sites[site]
			if si == nil {
				si = &SiteInfo{ID: site, Kind: kind, Name: name, pcs: keep}
				tr.Sites[site] = si
				tr.Order = append(tr.Order, site)
			}
			si.Count++
			si.Dyn = append(si.Dyn, int32(idx))
		}
	}
	in := make([]*big.Int, len(inputs))
	for i := range inputs {
		in[i] = e.val(inputs[i]).Big()
	}
	res, ok := callHint(f, e.q, in, nbOutputs)
	if !ok {
		if kind == HintOther {
			// gnark's own hints (bit decomposition etc.) fail only on values that cannot be
			// decomposed, which the following constraints would reject as well.
			e.reject("gnark hint " + name + " failed on its input")
		}
		e.res.TolerantHints++
		res = tolerant(kind, in, nbOutputs)
	}
	if e.opt.LumpBits && kind == HintOther && (strings.HasSuffix(name, "bits.nBits") || strings.HasSuffix(name, "bits.NBits")) && len(res) > 0 {
		// a malicious prover is not bound to gnark's decomposition hint either
		for i := range res {
			res[i] = new(big.Int)
		}
		res[0].Set(in[0])
		e.res.LumpedBits++
	}
	if injected {
		honest := res
		res = sub.apply(e.q, kind, in, honest)
		differs := false
		for i := range res {
			a := new(big.Int).Mod(res[i], e.q)
			b := new(big.Int).Mod(honest[i], e.q)
			if a.Cmp(b) != 0 {
				differs = true
			}
		}
		caller := repoSite(2, 1)
		if i := strings.LastIndex(caller, ":"); i > 0 {
			caller = caller[:i]
		}
		e.res.Injected = append(e.res.Injected, Injection{idx, kind, site, in, honest, res, differs, caller})
	}
	if tr := e.opt.Trace; tr != nil && tr.KeepIO[idx] {
		if tr.IO == nil {
			tr.IO = map[int][2][]*big.Int{}
		}
		tr.IO[idx] = [2][]*big.Int{in, res}
	}
	// taint: substituted outputs are the source; gnark's own hints and the limb split are part of
	// the checking machinery of their input and pass taint on; MulAdd/Reduce/Inverse outputs are
	// fresh prover values with constraints of their own.
	var tainted uint16
	if injected {
		tainted = 1
	} else if t := e.anyT(inputs...); t != 0 {
		tainted = t
		if kind != HintOther && kind != HintSplit && t < 1<<15 {
			tainted = t + 1
		}
	}
	out := make([]frontend.Variable, nbOutputs)
	for i := range res {
		v := new(V)
		v.e.SetBigInt(res[i])
		v.t = tainted
		if e.mon != nil {
			v.n = leafNode()
			v.n.hint = kind
		}
		out[i] = v
	}
	if e.mon != nil {
		e.mon.onHint(e, kind, inputs, out)
	}
	return out, nil
}

func callHint(f solver.Hint, q *big.Int, in []*big.Int, n int) (res []*big.Int, ok bool) {
	defer func() {
		if r := recover(); r != nil {
			ok = false
		}
	}()
	res = make([]*big.Int, n)
	for i := range res {
		res[i] = new(big.Int)
	}
	cp := make([]*big.Int, len(in))
	for i := range in {
		cp[i] = new(big.Int).Set(in[i])
	}
	if err := f(q, cp, res); err != nil {
		return nil, false
	}
	return res, true
}

// ApplySubst computes the substituted outputs of a hint call (exported for compiled-backend overrides).
func ApplySubst(s Subst, kind HintKind, in, honest []*big.Int) []*big.Int {
	return s.apply(fr.Modulus(), kind, in, honest)
}

package eng

import (
	"math/big"
	"runtime"
	"sort"
	"strings"

	"github.com/consensys/gnark-crypto/ecc/bn254/fr"
	"github.com/consensys/gnark/frontend"
)

// Bound monitor: every value carries a node of an expression DAG.  Leaves (inputs, hint outputs,
// results of non-monotone operations) have an integer upper bound that starts at r-1 and is
// refined by what the circuit asserts about them (width checks, boolean assertions, equality
// with an expression whose bound is smaller).  Interior nodes compute bounds over the integers.
const (
	kLeaf uint8 = iota
	kConst
	kAdd
	kMul
	kMulAcc // a + b*c
	kMax
)

type Node struct {
	kind    uint8
	a, b, c *Node
	ub      *big.Int // leaf/const bound
	links   []*Node  // expressions this leaf was asserted equal to
	busy    bool
	canon   bool // went through the chip's full Goldilocks RangeCheck (SplitLimbs hint was requested for it)
	hint    HintKind
	input   string
	memo    [2]*big.Int
}

var rMinus1 = new(big.Int).Sub(fr.Modulus(), big.NewInt(1))
var pMinus1 = new(big.Int).Sub(glP, big.NewInt(1))
var capBound = new(big.Int).Lsh(big.NewInt(1), 1024)

func leafNode() *Node { return &Node{kind: kLeaf, ub: rMinus1} }

// Bound returns an upper bound of the node's integer value.  With compl=false only facts the
// circuit enforces by itself are used (soundness side).  With compl=true a value that the chip
// range-checks as a Goldilocks element is additionally taken to be <= p-1 (the exactness of that
// check is property C06's business) -- used for the "honest values always fit" side.
func (n *Node) Bound(compl bool) *big.Int {
	ci := 0
	if compl {
		ci = 1
	}
	switch n.kind {
	case kConst:
		return n.ub
	case kLeaf:
		b := n.ub
		if compl && n.canon && pMinus1.Cmp(b) < 0 {
			b = pMinus1
		}
		if n.busy || len(n.links) == 0 {
			return b
		}
		n.busy = true
		for _, l := range n.links {
			lb := l.Bound(compl)
			if lb.Cmp(b) < 0 {
				b = lb
			}
		}
		n.busy = false
		return b
	}
	if m := n.memo[ci]; m != nil {
		return m
	}
	var r *big.Int
	switch n.kind {
	case kAdd:
		r = capb(new(big.Int).Add(n.a.Bound(compl), n.b.Bound(compl)))
	case kMul:
		r = capb(new(big.Int).Mul(n.a.Bound(compl), n.b.Bound(compl)))
	case kMulAcc:
		t := new(big.Int).Mul(n.b.Bound(compl), n.c.Bound(compl))
		r = capb(t.Add(t, n.a.Bound(compl)))
	case kMax:
		x, y := n.a.Bound(compl), n.b.Bound(compl)
		if x.Cmp(y) > 0 {
			r = x
		} else {
			r = y
		}
	default:
		panic("eng: bad node")
	}
	n.memo[ci] = r
	return r
}

func capb(x *big.Int) *big.Int {
	if x.Cmp(capBound) > 0 {
		return capBound
	}
	return x
}

// Obligation summarises all dynamic instances of one static site group.
type Obligation struct {
	Site  string
	Kind  string // "equality" (soundness) or "fit" (completeness)
	Count int
	MaxL  *big.Int
	MaxR  *big.Int
	Limit *big.Int // for fit obligations: the largest limit seen
	Viol  int
	Width int // for fit: quotient width in bits (max seen)
}

type pendEq struct {
	site   string
	na, nb *Node
}
type pendFit struct {
	site    string
	kind    HintKind
	x       *Node // value being reduced (Reduce) or nil
	a, b, c *Node // MulAdd operands
	q       *Node
}

type Monitor struct {
	Obls    map[string]*Obligation
	eq      []pendEq
	fit     []pendFit
	siteMem map[uintptr]siteInfoCached
	// Owner decides which immediate callers' equalities are soundness obligations.
	Owner func(fn string) bool
}

type siteInfoCached struct {
	s  string
	ok bool
}

func NewMonitor() *Monitor {
	return &Monitor{Obls: map[string]*Obligation{}, siteMem: map[uintptr]siteInfoCached{}, Owner: func(fn string) bool {
		return strings.HasPrefix(fn, "goldilocks.") || strings.HasPrefix(fn, "verifier.(*CircuitFixed)")
	}}
}

// callerSite returns up to 3 innermost repo frames if the first non-engine frame is owned.
func (m *Monitor) callerSite(skip int) (string, bool) {
	var pcs [14]uintptr
	n := runtime.Callers(skip, pcs[:])
	if n == 0 {
		return "", false
	}
	// cache by the PCs of the first four frames
	key := pcs[0]*31 + pcs[1]*17 + pcs[2]*7 + pcs[3]
	if c, ok := m.siteMem[key]; ok {
		return c.s, c.ok
	}
	fr := runtime.CallersFrames(pcs[:n])
	var parts []string
	first := true
	ok := false
	for {
		f, more := fr.Next()
		if strings.Contains(f.Function, "example-near-light-client") {
			fn := f.Function[strings.LastIndex(f.Function, "/")+1:]
			if first {
				first = false
				ok = m.Owner(fn)
				if !ok {
					break
				}
			}
			parts = append(parts, fn)
			if len(parts) == 3 {
				break
			}
		} else if first && !strings.Contains(f.Function, "verif/eng") {
			break // immediate caller is gnark std: not an obligation of the chip
		}
		if !more {
			break
		}
	}
	s := strings.Join(parts, "<")
	m.siteMem[key] = siteInfoCached{s, ok}
	return s, ok
}

func (m *Monitor) onWidth(e *Engine, x *V, bits int) {
	n := e.nd(x)
	if n.kind != kLeaf {
		return
	}
	nb := new(big.Int).Lsh(one, uint(bits))
	nb.Sub(nb, one)
	if nb.Cmp(n.ub) < 0 {
		n.ub = nb
	}
}

func (m *Monitor) onEqual(e *Engine, a, b *V) {
	na, nb := e.nd(a), e.nd(b)
	if na.kind == kLeaf && nb.kind != kLeaf {
		na.links = append(na.links, nb)
	} else if nb.kind == kLeaf && na.kind != kLeaf {
		nb.links = append(nb.links, na)
	}
	site, ok := m.callerSite(4)
	if !ok {
		return
	}
	m.eq = append(m.eq, pendEq{site, na, nb})
}

func (m *Monitor) onHint(e *Engine, kind HintKind, in []frontend.Variable, out []frontend.Variable) {
	switch kind {
	case HintSplit:
		e.nd(e.val(in[0])).canon = true
	case HintReduce:
		site, _ := m.callerSite(4)
		m.fit = append(m.fit, pendFit{site: site, kind: kind, x: e.nd(e.val(in[0])), q: out[0].(*V).n})
	case HintMulAdd:
		site, _ := m.callerSite(4)
		m.fit = append(m.fit, pendFit{site: site, kind: kind, a: e.nd(e.val(in[0])), b: e.nd(e.val(in[1])), c: e.nd(e.val(in[2])), q: out[0].(*V).n})
	}
}

// Finish evaluates all recorded obligations with the final (fully refined) leaf bounds.
func (m *Monitor) Finish() {
	get := func(site, kind string) *Obligation {
		k := kind + "|" + site
		o := m.Obls[k]
		if o == nil {
			o = &Obligation{Site: site, Kind: kind, MaxL: new(big.Int), MaxR: new(big.Int), Limit: new(big.Int)}
			m.Obls[k] = o
		}
		return o
	}
	for _, p := range m.eq {
		o := get(p.site, "equality")
		o.Count++
		la, lb := p.na.Bound(false), p.nb.Bound(false)
		if la.Cmp(o.MaxL) > 0 {
			o.MaxL = la
		}
		if lb.Cmp(o.MaxR) > 0 {
			o.MaxR = lb
		}
		if la.Cmp(rMinus1) > 0 || lb.Cmp(rMinus1) > 0 {
			o.Viol++
		}
	}
	for _, p := range m.fit {
		o := get(p.site, "fit")
		o.Count++
		var x *big.Int
		if p.kind == HintReduce {
			x = p.x.Bound(true)
		} else {
			x = new(big.Int).Mul(p.a.Bound(true), p.b.Bound(true))
			x.Add(x, p.c.Bound(true))
		}
		// the honest quotient floor(x/p) must satisfy the width the circuit enforces on it
		qb := p.q.Bound(true)
		lim := new(big.Int).Mul(qb, glP)
		lim.Add(lim, pMinus1)
		if x.Cmp(o.MaxL) > 0 {
			o.MaxL = x
		}
		if lim.Cmp(o.Limit) > 0 {
			o.Limit = lim
		}
		if w := qb.BitLen(); w > o.Width {
			o.Width = w
		}
		if x.Cmp(lim) > 0 {
			o.Viol++
		}
	}
	m.eq, m.fit = nil, nil
}

// Sorted returns obligations in deterministic order.
func (m *Monitor) Sorted() []*Obligation {
	var ks []string
	for k := range m.Obls {
		ks = append(ks, k)
	}
	sort.Strings(ks)
	out := make([]*Obligation, len(ks))
	for i, k := range ks {
		out[i] = m.Obls[k]
	}
	return out
}

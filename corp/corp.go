// Package corp loads the frozen corpus of real accepted instances, both in the repository's
// circuit types (through the repository's own readers) and in the reference verifier's types.
package corp

import (
	"os"
	"path/filepath"
	"runtime"

	"verif/ref"

	"github.com/wormhole-foundation/example-near-light-client/types"
	"github.com/wormhole-foundation/example-near-light-client/variables"
	"github.com/wormhole-foundation/example-near-light-client/verifier"
)

// Names of the corpus instances: A* = inner circuit A (16 public inputs), B* = inner circuit B (97).
var Names = []string{"A1", "A2", "B1", "B2", "B3"}

func Dir() string {
	if d := os.Getenv("VERIF_ROOT"); d != "" {
		return filepath.Join(d, "corpus")
	}
	_, f, _, _ := runtime.Caller(0)
	return filepath.Join(filepath.Dir(filepath.Dir(f)), "corpus")
}

func Path(name, file string) string { return filepath.Join(Dir(), name, file) }

type Ref struct {
	Name string
	P    ref.ProofWithPIs
	V    ref.VerifierOnly
	C    ref.Common
}

func LoadRef(name string) *Ref {
	r := &Ref{Name: name}
	ref.LoadJSON(Path(name, "proof.json"), &r.P)
	ref.LoadJSON(Path(name, "verifier_data.json"), &r.V)
	ref.LoadJSON(Path(name, "common_data.json"), &r.C)
	return r
}

// Circuit returns a fresh (unshared) VerifierCircuit value populated through the repository's
// readers; use it both as template and as assignment.
func Circuit(name string) *verifier.VerifierCircuit {
	pw, _ := variables.DeserializeProofWithPublicInputs(types.ReadProofWithPublicInputs(Path(name, "proof.json")))
	vd := variables.DeserializeVerifierOnlyCircuitData(types.ReadVerifierOnlyCircuitData(Path(name, "verifier_data.json")))
	cd := types.ReadCommonCircuitData(Path(name, "common_data.json"))
	return &verifier.VerifierCircuit{Proof: pw.Proof, PublicInputs: pw.PublicInputs, VerifierData: vd, CommonCircuitData: cd}
}

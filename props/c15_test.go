package props

import (
	"encoding/json"
	"fmt"
	"math/big"
	"testing"

	"verif/eng"
	"verif/gad"
	"verif/ref"

	"github.com/consensys/gnark/frontend"
	gl "github.com/wormhole-foundation/example-near-light-client/goldilocks"
	"github.com/wormhole-foundation/example-near-light-client/plonk/gates"
	"github.com/wormhole-foundation/example-near-light-client/poseidon"
	"pgregory.net/rapid"
)

// C15 Gate evaluators equal plonky2 gate polynomials, with exact selector filtering.

type c15Row struct {
	Mode   int         `json:"mode"`
	Gate   gateSpec    `json:"gate"`
	Wires  [][2]uint64 `json:"wires"`
	Consts [][2]uint64 `json:"consts"`
	PI     [4]uint64   `json:"pi_hash"`
	Kind   string      `json:"kind"` // random | honest | honest-perturbed
}

func rowInputs(w, c [][2]uint64, pi [4]uint64) []*big.Int {
	var in []*big.Int
	for _, e := range w {
		in = append(in, bu(e[0]), bu(e[1]))
	}
	for _, e := range c {
		in = append(in, bu(e[0]), bu(e[1]))
	}
	return append(in, u64s(pi[:])...)
}

func readRow(v []frontend.Variable, nw, nc int) (wires, consts []gl.QuadraticExtensionVariable, h poseidon.GoldilocksHashOut) {
	for i := 0; i < nw; i++ {
		wires = append(wires, qev(v[2*i], v[2*i+1]))
	}
	o := 2 * nw
	for i := 0; i < nc; i++ {
		consts = append(consts, qev(v[o+2*i], v[o+2*i+1]))
	}
	o += 2 * nc
	for i := range h {
		h[i] = glv(v[o+i])
	}
	return
}

func flatQE(c []gl.QuadraticExtensionVariable) []frontend.Variable {
	var o []frontend.Variable
	for _, e := range c {
		o = append(o, e[0].Limb, e[1].Limb)
	}
	return o
}

func c15RowRun(a c15Row) caseResult {
	id := a.Gate.id()
	rg, err := ref.ParseGate(id)
	if err != nil {
		return caseResult{Viol: "infra/ref-parse", Desc: err.Error()}
	}
	want := rg.Eval(&ref.Vars{Consts: toEs(a.Consts), Wires: toEs(a.Wires), PIHash: a.PI})
	nw, nc := len(a.Wires), len(a.Consts)
	fn := func(api frontend.API, v []frontend.Variable) []frontend.Variable {
		g := gates.GateInstanceFromId(id)
		w, c, h := readRow(v, nw, nc)
		vars := gates.NewEvaluationVars(c, w, h)
		return flatQE(g.EvalUnfiltered(api, gl.New(api), *vars))
	}
	cr := expectOutputs("gate "+a.Gate.Type, eng.Mode(a.Mode), rowInputs(a.Wires, a.Consts, a.PI), fn, flatE(want))
	if cr.Viol != "" {
		cr.Desc = fmt.Sprintf("%s [%s row]: %s", id, a.Kind, cr.Desc)
		return cr
	}
	if a.Kind == "honest" {
		for i, e := range want {
			if e != ref.EZero {
				return caseResult{Viol: "honest-row-nonzero/" + a.Gate.Type, Desc: fmt.Sprintf("%s: constraint %d does not vanish on an honestly generated row (both circuit and reference give %v)", id, i, e)}
			}
		}
	}
	nz := 0
	for _, e := range want {
		if e != ref.EZero {
			nz++
		}
	}
	cr.Info = map[string]any{"gate": id[:minInt(len(id), 60)], "constraints": len(want), "nonzero": nz, "kind": a.Kind}
	return cr
}

func minInt(a, b int) int {
	if a < b {
		return a
	}
	return b
}

type c15Sel struct {
	Mode        int         `json:"mode"`
	Gates       []gateSpec  `json:"gates"`
	GroupStarts []uint64    `json:"group_starts"`
	GroupEnds   []uint64    `json:"group_ends"`
	Wires       [][2]uint64 `json:"wires"`
	Consts      [][2]uint64 `json:"consts"` // first len(groups) are the selector openings
	PI          [4]uint64   `json:"pi_hash"`
}

func c15SelRun(a c15Sel) caseResult {
	n := len(a.Gates)
	ids := make([]string, n)
	rgs := make([]ref.Gate, n)
	selIdx := make([]uint64, n)
	for i, g := range a.Gates {
		ids[i] = g.id()
		rg, err := ref.ParseGate(ids[i])
		if err != nil {
			return caseResult{Viol: "infra/ref-parse", Desc: err.Error()}
		}
		rgs[i] = rg
		for gi := range a.GroupStarts {
			if uint64(i) >= a.GroupStarts[gi] && uint64(i) < a.GroupEnds[gi] {
				selIdx[i] = uint64(gi)
			}
		}
	}
	vars := ref.Vars{Consts: toEs(a.Consts), Wires: toEs(a.Wires), PIHash: a.PI}
	// number of constraints = max over gates
	ngc := uint64(0)
	for _, rg := range rgs {
		vv := ref.Vars{Consts: vars.Consts[len(a.GroupStarts):], Wires: vars.Wires, PIHash: a.PI}
		if k := uint64(len(rg.Eval(&vv))); k > ngc {
			ngc = k
		}
	}
	cd := &ref.Common{NumGateConstraints: ngc}
	cd.SelectorsInfo.SelectorIndices = selIdx
	for gi := range a.GroupStarts {
		cd.SelectorsInfo.Groups = append(cd.SelectorsInfo.Groups, struct {
			Start uint64 `json:"start"`
			End   uint64 `json:"end"`
		}{a.GroupStarts[gi], a.GroupEnds[gi]})
	}
	want := ref.EvalGateConstraints(cd, rgs, vars)
	nw, nc := len(a.Wires), len(a.Consts)
	fn := func(api frontend.API, v []frontend.Variable) []frontend.Variable {
		var gs []gates.Gate
		for _, id := range ids {
			gs = append(gs, gates.GateInstanceFromId(id))
		}
		si := gates.NewSelectorsInfo(selIdx, a.GroupStarts, a.GroupEnds)
		chip := gates.NewEvaluateGatesChip(api, gs, ngc, *si)
		w, c, h := readRow(v, nw, nc)
		return flatQE(chip.EvaluateGateConstraints(*gates.NewEvaluationVars(c, w, h)))
	}
	cr := expectOutputs("EvaluateGateConstraints", eng.Mode(a.Mode), rowInputs(a.Wires, a.Consts, a.PI), fn, flatE(want))
	if cr.Viol != "" {
		cr.Desc = fmt.Sprintf("gates %v groups %v-%v: %s", ids, a.GroupStarts, a.GroupEnds, cr.Desc)
	}
	return cr
}

func genRowRandom(t *rapid.T, nw, nc int) (w, c [][2]uint64, pi [4]uint64) {
	for i := 0; i < nw; i++ {
		w = append(w, e2(genE().Draw(t, "w")))
	}
	for i := 0; i < nc; i++ {
		c = append(c, e2(genE().Draw(t, "c")))
	}
	for i := range pi {
		pi[i] = genGL().Draw(t, "pi")
	}
	return
}

func wiresNeeded(g gateSpec) int {
	switch g.Type {
	case "Poseidon":
		return 135
	case "PoseidonMds":
		return 48
	case "Arithmetic":
		return int(4 * g.P[0])
	case "ArithmeticExtension":
		return int(8 * g.P[0])
	case "MulExtension":
		return int(6 * g.P[0])
	case "BaseSum":
		return int(1 + g.P[0])
	case "Reducing":
		return int(6 + g.P[0] + 2*g.P[0])
	case "ReducingExtension":
		return int(6 + 4*g.P[0])
	case "Exponentiation":
		return int(2 + 2*g.P[0])
	case "RandomAccess":
		return int((2+(uint64(1)<<g.P[0]))*g.P[1] + g.P[2] + g.P[0]*g.P[1])
	case "CosetInterpolation":
		np := uint64(1) << g.P[0]
		return int(1 + 2*np + 4 + 4*((np-2)/(g.P[1]-1)) + 2)
	}
	return 8
}

func TestC15(t *testing.T) {
	s := newSuite("C15")
	compiledEvery = 50
	r := s.r
	defer r.Flush()
	r.Rule("gate identifiers generated from plonky2's Debug grammar for all 14 supported gate types with parameters over the stated ranges (num_ops 1..20/10/13, limbs 1..63 x base 2..4, bits 1..5 x copies 1..4 x extra constants 0..2, power bits 1..67, coefficients 1..43/32, subgroup bits 2..4 x degree 2..6 with matching barycentric weights); rows: (random) all wires/constants random over GF(p^2), (honest) produced by semantic witness generators that run the gate's computation and record the witnesses, (honest-perturbed) an honest row with one used wire changed.  Oracles: the constraint vector returned by EvalUnfiltered equals the reference gate polynomial element-wise; on honest rows it is the zero vector.  Selector filtering: 2..8 random gates, 1..4 contiguous selector groups, selector openings drawn from {index of a gate in the group, the unused marker 2^32-1, random}; EvaluateGateConstraints equals sum of filter*gate position-wise per the reference.  Non-trivial = at least half of the used wires non-zero (random rows always are); distinct = full case.")
	r.Assume("reference gate polynomials (validated by accepting 5 real proofs over 13 of the 14 gate types and by the honest-row oracle)", "ExponentiationGate reference rests on the honest-row oracle only")
	s.on("row", func(b json.RawMessage) caseResult { return c15RowRun(unmarshal[c15Row](b)) })
	s.on("sel", func(b json.RawMessage) caseResult { return c15SelRun(unmarshal[c15Sel](b)) })
	if s.replay(t) {
		return
	}
	rapidCheck(t, "rows", tierN(2500, 30000), func(rt *rapid.T) {
		typ := rapid.SampledFrom(gateTypes).Draw(rt, "type")
		if typ == "Poseidon" && rapid.IntRange(0, 2).Draw(rt, "thin") != 0 {
			typ = rapid.SampledFrom(gateTypes[4:]).Draw(rt, "type2") // the Poseidon gate is ~50x more expensive
		}
		g := genGateSpec(typ).Draw(rt, "gate")
		kind := rapid.SampledFrom([]string{"random", "honest", "honest-perturbed"}).Draw(rt, "kind")
		a := c15Row{Mode: int(genMode().Draw(rt, "mode")), Gate: g, Kind: kind}
		if kind == "random" {
			a.Wires, a.Consts, a.PI = genRowRandom(rt, gateRowWires, gateRowConsts)
		} else {
			w, c, pi := honestRow(rt, g)
			if kind == "honest-perturbed" {
				i := rapid.IntRange(0, wiresNeeded(g)-1).Draw(rt, "wire")
				w[i] = ref.EAdd(w[i], ref.E{rapid.SampledFrom([]uint64{1, ref.P - 1, 5}).Draw(rt, "delta"), uint64(rapid.IntRange(0, 1).Draw(rt, "im"))})
			}
			for _, e := range w {
				a.Wires = append(a.Wires, e2(e))
			}
			for _, e := range c {
				a.Consts = append(a.Consts, e2(e))
			}
			a.PI = pi
		}
		if typ == "Poseidon" && kind == "honest" {
			// generator self-test: the recorded outputs are the naive Poseidon of the (swapped) inputs
			var st [12]ref.F
			sw := a.Wires[24][0]
			for i := 0; i < 4; i++ {
				st[i], st[i+4] = a.Wires[i][0], a.Wires[i+4][0]
				if sw == 1 {
					st[i], st[i+4] = st[i+4], st[i]
				}
				st[i+8] = a.Wires[i+8][0]
			}
			out := ref.PoseidonGL(st)
			for i := range out {
				if out[i] != a.Wires[12+i][0] {
					r.Infra(rt, "honest Poseidon row generator disagrees with the naive permutation")
				}
			}
		}
		s.exec(rt, "row", a, "row/"+typ+"/"+kind)
	})
	rapidCheck(t, "selectors", tierN(400, 6000), func(rt *rapid.T) {
		n := rapid.IntRange(2, 8).Draw(rt, "ngates")
		a := c15Sel{Mode: int(eng.ModeNative)}
		for i := 0; i < n; i++ {
			typ := rapid.SampledFrom(gateTypes[:2]).Draw(rt, "t0")
			if rapid.IntRange(0, 4).Draw(rt, "param") != 0 {
				typ = rapid.SampledFrom(append([]string{"PoseidonMds"}, gateTypes[4:]...)).Draw(rt, "type")
			}
			a.Gates = append(a.Gates, genGateSpec(typ).Draw(rt, "gate"))
		}
		ng := rapid.IntRange(1, minInt(4, n)).Draw(rt, "ngroups")
		cuts := map[int]bool{}
		for len(cuts) < ng-1 {
			cuts[rapid.IntRange(1, n-1).Draw(rt, "cut")] = true
		}
		start := 0
		for i := 1; i <= n; i++ {
			if cuts[i] || i == n {
				a.GroupStarts = append(a.GroupStarts, uint64(start))
				a.GroupEnds = append(a.GroupEnds, uint64(i))
				start = i
			}
		}
		a.Wires, a.Consts, a.PI = genRowRandom(rt, gateRowWires, gateRowConsts+len(a.GroupStarts))
		for gi := range a.GroupStarts {
			switch rapid.IntRange(0, 2).Draw(rt, "selkind") {
			case 0:
				a.Consts[gi] = [2]uint64{uint64(rapid.IntRange(int(a.GroupStarts[gi]), int(a.GroupEnds[gi])-1).Draw(rt, "selected")), 0}
			case 1:
				a.Consts[gi] = [2]uint64{ref.UnusedSelector, 0}
			}
		}
		s.exec(rt, "sel", a, fmt.Sprintf("selectors/groups=%d", len(a.GroupStarts)))
	})
	r.Done()
}

var _ = gad.Run

package props

import (
	"encoding/json"
	"fmt"
	"math/big"
	"math/bits"
	"strings"
	"testing"
	"verif/cs"
	"verif/rec"

	"verif/corp"
	"verif/eng"
	"verif/gad"
	"verif/ref"
	"verif/wv"

	"github.com/consensys/gnark/frontend"
	"github.com/wormhole-foundation/example-near-light-client/fri"
	gl "github.com/wormhole-foundation/example-near-light-client/goldilocks"
	"github.com/wormhole-foundation/example-near-light-client/types"
	"github.com/wormhole-foundation/example-near-light-client/variables"
	"pgregory.net/rapid"
)

// C14 FRI proof-of-work condition is enforced for every response value.

type c14Lz struct {
	Mode     int    `json:"mode"`
	Force    bool   `json:"force"`
	Bits     uint64 `json:"pow_bits"`
	Response string `json:"response"`
}

func c14LzRun(a c14Lz) caseResult {
	pad := 0
	if eng.Mode(a.Mode) == eng.ModeCommit && !a.Force {
		pad = c06Pad
	}
	fn := func(api frontend.API, v []frontend.Variable) []frontend.Variable {
		cd := types.CommonCircuitData{}
		fri.NewChip(api, &cd, &cd.FriParams).VerifLeadingZeros(glv(v[0]), types.FriConfig{ProofOfWorkBits: a.Bits})
		c := gl.New(api)
		for i := 0; i < pad; i++ {
			c.RangeCheckWithMaxBits(glv(v[1]), 16)
		}
		return nil
	}
	resp := bs(a.Response)
	res, _ := gad.Run(eng.Options{Mode: eng.Mode(a.Mode), ForceBitDecomp: a.Force}, []*big.Int{resp, big.NewInt(0)}, fn)
	want := resp.BitLen() <= int(64-a.Bits)
	if res.Outcome == eng.Refused {
		return caseResult{Viol: "leadingzeros/refused", Desc: fmt.Sprintf("assertLeadingZeros refused difficulty %d under %s: %s", a.Bits, eng.Mode(a.Mode), fmtRes(res))}
	}
	if (res.Outcome == eng.Accept) != want {
		return caseResult{Viol: fmt.Sprintf("leadingzeros/%s", eng.Mode(a.Mode)), Desc: fmt.Sprintf("difficulty %d, response %s (%d leading zeros as a 64-bit value): circuit %v, expected accept=%v", a.Bits, resp, 64-resp.BitLen(), res.Outcome, want)}
	}
	return caseResult{Info: map[string]any{"difficulty": a.Bits, "response_bits": resp.BitLen(), "outcome": res.Outcome.String()}}
}

// The proof-of-work check compiled with gnark's builders under the commit range checker, in
// circuits of different sizes: the limb width gnark picks for the checker depends on the builder
// (R1CS / SCS cost model) and on how many checks the whole circuit collects.  The chip refuses
// circuits where its own estimate is not 16 bits; whatever compiles must enforce the exact bound.
type c14Pop struct {
	Backend  string `json:"backend"` // r1cs | scs
	Bits     uint64 `json:"pow_bits"`
	PadN     int    `json:"goldilocks_range_checks"`
	Response string `json:"response"`
}

type c14PopSys struct {
	sys *cs.System
	err error
}

var c14PopSystems = map[string]c14PopSys{}

func c14PopRun(a c14Pop) caseResult {
	key := fmt.Sprintf("%s/%d/%d", a.Backend, a.Bits, a.PadN)
	ps, ok := c14PopSystems[key]
	if !ok {
		kind := cs.R1CS
		if strings.HasPrefix(a.Backend, "scs") {
			kind = cs.SCS
		}
		fn := func(api frontend.API, v []frontend.Variable) []frontend.Variable {
			cd := types.CommonCircuitData{}
			fri.NewChip(api, &cd, &cd.FriParams).VerifLeadingZeros(glv(v[0]), types.FriConfig{ProofOfWorkBits: a.Bits})
			c := gl.New(api)
			for i := 0; i < a.PadN; i++ {
				c.RangeCheck(glv(v[1]))
			}
			return nil
		}
		mech := cs.MechCommit
		if strings.HasSuffix(a.Backend, "+native-thin") {
			mech = cs.MechNativeThin // builder wrapped by a struct that only adds Check
		}
		ps.sys, ps.err = cs.Compile(kind, mech, 2, 0, fn)
		if len(c14PopSystems) > 4 {
			c14PopSystems = map[string]c14PopSys{}
		}
		c14PopSystems[key] = ps
	}
	if ps.err != nil {
		return caseResult{Trivial: true, Info: map[string]any{"compile": "refused", "why": truncate(ps.err.Error(), 80)}}
	}
	resp := bs(a.Response)
	want := resp.BitLen() <= int(64-a.Bits)
	serr := ps.sys.Solve([]*big.Int{resp, big.NewInt(0)}, nil)
	if (serr == nil) != want {
		return caseResult{Viol: "leadingzeros/compiled-" + a.Backend, Desc: fmt.Sprintf("proof-of-work check (difficulty %d) compiled for %s (commit range checker unless a native wrapper is named) in a circuit with %d further Goldilocks range checks: response %s (%d leading zeros) solved=%v, expected accept=%v", a.Bits, a.Backend, a.PadN, resp, 64-resp.BitLen(), serr == nil, want)}
	}
	return caseResult{Info: map[string]any{"compile": "ok", "solved": serr == nil}}
}

// whole VerifyFriProof on a real one-round prefix with only the PoW response replaced
type c14Fri struct {
	Base     string `json:"base"`
	Response string `json:"response"`
	// difficulty of another FRI chip created first on the same API (nil: none), as in a circuit that verifies
	// proofs of two inner circuits; the chip under test must still enforce its own difficulty
	FirstChipBits *uint64 `json:"first_chip_pow_bits,omitempty"`
}

type friCircuit struct {
	Proof   variables.Proof
	VD      variables.VerifierOnlyCircuitData
	Zeta    [2]frontend.Variable
	Alpha   [2]frontend.Variable
	Betas   [][2]frontend.Variable
	Pow     frontend.Variable
	Indices []frontend.Variable
	CD      types.CommonCircuitData `gnark:"-"`
	Warm    *uint64                 `gnark:"-"`
}

func (c *friCircuit) Define(api frontend.API) error {
	if c.Warm != nil {
		cd0 := c.CD
		cd0.Config.FriConfig.ProofOfWorkBits = *c.Warm
		cd0.FriParams.Config.ProofOfWorkBits = *c.Warm
		_ = fri.NewChip(api, &cd0, &cd0.FriParams)
	}
	cd := c.CD
	chip := fri.NewChip(api, &cd, &cd.FriParams)
	ch := &variables.FriChallenges{FriAlpha: qev(c.Alpha[0], c.Alpha[1]), FriPowResponse: glv(c.Pow)}
	for _, b := range c.Betas {
		ch.FriBetas = append(ch.FriBetas, qev(b[0], b[1]))
	}
	ch.FriQueryIndices = glvs(c.Indices)
	zeta := qev(c.Zeta[0], c.Zeta[1])
	caps := []variables.FriMerkleCap{c.VD.ConstantSigmasCap, c.Proof.WiresCap, c.Proof.PlonkZsPartialProductsCap, c.Proof.QuotientPolysCap}
	chip.VerifyFriProof(chip.GetInstance(zeta), chip.ToOpenings(c.Proof.Openings), ch, caps, &c.Proof.OpeningProof)
	return nil
}

func c14FriRun(a c14Fri) caseResult {
	in := wv.Load(a.Base, 1)
	ch := in.Challenges()
	mk := func() *friCircuit {
		vc := in.Circuit()
		f := &friCircuit{Proof: vc.Proof, VD: vc.VerifierData, CD: in.CD, Warm: a.FirstChipBits}
		f.Zeta = [2]frontend.Variable{ch.Zeta[0], ch.Zeta[1]}
		f.Alpha = [2]frontend.Variable{ch.FriAlpha[0], ch.FriAlpha[1]}
		for _, b := range ch.FriBetas {
			f.Betas = append(f.Betas, [2]frontend.Variable{b[0], b[1]})
		}
		f.Pow = bs(a.Response)
		for _, q := range ch.QueryIndices {
			f.Indices = append(f.Indices, q)
		}
		return f
	}
	res := eng.Run(mk(), mk(), eng.Options{Mode: eng.ModeNative})
	resp := bs(a.Response)
	b := in.Ref.C.FriParams.Config.ProofOfWorkBits
	want := resp.BitLen() <= int(64-b)
	if (res.Outcome == eng.Accept) != want {
		return caseResult{Viol: "verifyfri/pow", Desc: fmt.Sprintf("VerifyFriProof on %s with PoW response %s (difficulty %d): circuit %s, expected accept=%v", in.Name(), resp, b, fmtRes(res), want)}
	}
	return caseResult{Info: map[string]any{"response_bits": resp.BitLen(), "outcome": res.Outcome.String(), "at": res.Site}}
}

// response derived in circuit from a substituted witness, then checked against a difficulty
type c14Wit struct {
	Base    string `json:"base"`
	Witness uint64 `json:"pow_witness"`
	Bits    uint64 `json:"pow_bits"`
}

func c14RefResponse(in *wv.Inst, w uint64) uint64 {
	p := in.Ref.P
	p.Proof.OpeningProof.PowWitness = w
	return ref.GetChallenges(&in.Ref.C, &p, &in.Ref.V, ref.HashNoPadGL(p.PublicInputs)).PowResponse
}

func c14WitRun(a c14Wit) caseResult {
	in := wv.Load(a.Base, 1)
	resp := c14RefResponse(in, a.Witness)
	want := uint64(bits.LeadingZeros64(resp)) >= a.Bits
	mk := func(out *[]frontend.Variable) *challCircuit {
		vc := in.Circuit()
		vc.Proof.OpeningProof.PowWitness = glv(new(big.Int).SetUint64(a.Witness))
		return &challCircuit{PublicInputs: vc.PublicInputs, Proof: vc.Proof, VerifierData: vc.VerifierData, CommonCircuitData: in.CD, Out: out, PowBits: a.Bits}
	}
	var outs []frontend.Variable
	res := eng.Run(mk(&outs), mk(new([]frontend.Variable)), eng.Options{Mode: eng.ModeNative})
	if (res.Outcome == eng.Accept) != want {
		return caseResult{Viol: "witness/pow", Desc: fmt.Sprintf("%s with PoW witness %d (reference response %d, %d leading zeros) at difficulty %d: circuit %s, expected accept=%v", in.Name(), a.Witness, resp, bits.LeadingZeros64(resp), a.Bits, fmtRes(res), want)}
	}
	return caseResult{Info: map[string]any{"witness": a.Witness, "response_leading_zeros": bits.LeadingZeros64(resp), "difficulty": a.Bits, "outcome": res.Outcome.String()}}
}

func TestC14(t *testing.T) {
	s := newSuite("C14")
	r := s.r
	defer r.Flush()
	r.Rule("(a) assertLeadingZeros through its export hook: response in {2^(64-b)-1, 2^(64-b), 2^(64-b)+1, p-1, 0, random of every bit length} x difficulty b in 1..63 (native, plain, forced-bits flavours) and b in {16,32,48} under the padded commit flavour; accept <=> response < 2^(64-b); the same check compiled with gnark's R1CS and SCS builders under the commit range checker (and behind a thin native-range-checker wrapper, difficulties 1..63) inside circuits with 0..57000 further Goldilocks range checks (circuits the chip refuses are trivial cases; circuits that compile must be exact at 2^(64-b)-1, 2^(64-b), 2^(64-b)+1, 2^(64-b+j); one size per geometric bucket of ratio 1.2 (thorough 1.03) and builder).  (b) exported VerifyFriProof on one-round prefixes of real proofs with all challenges supplied by the reference and only the PoW response replaced.  (c) PoW witness substituted into real transcripts: the response is recomputed in circuit (GetChallenges) and checked at a drawn difficulty; witnesses are drawn at random and ground natively until the reference response has the required zeros, so both verdicts occur; accept <=> reference response of the supplied witness has >= b leading zeros.  Half of the VerifyFriProof cases create an FRI chip for a description with another difficulty (0, 1, 8, 15, 20, 32) on the same API first; the chip under test must still enforce its own difficulty.  Non-trivial = every case; distinct = (response|witness, difficulty, flavour).")
	r.Assume("reference transcript (C11)")
	s.on("lz", func(b json.RawMessage) caseResult { return c14LzRun(unmarshal[c14Lz](b)) })
	s.on("fri", func(b json.RawMessage) caseResult { return c14FriRun(unmarshal[c14Fri](b)) })
	s.on("wit", func(b json.RawMessage) caseResult { return c14WitRun(unmarshal[c14Wit](b)) })
	s.on("pop", func(b json.RawMessage) caseResult { return c14PopRun(unmarshal[c14Pop](b)) })
	if s.replay(t) {
		return
	}
	genResp := func(rt *rapid.T, b uint64) *big.Int {
		lim := pow2(uint(64 - b))
		switch rapid.IntRange(0, 5).Draw(rt, "rkind") {
		case 0:
			return new(big.Int).Sub(lim, big.NewInt(1))
		case 1:
			return lim
		case 2:
			return new(big.Int).Add(lim, big.NewInt(1))
		case 3:
			return rapid.SampledFrom([]*big.Int{big.NewInt(0), big.NewInt(1), bu(ref.P - 1), pow2(63), pow2(32)}).Draw(rt, "edge")
		default:
			n := rapid.IntRange(1, 64).Draw(rt, "bitlen")
			x := genBigBelow(pow2(uint(n))).Draw(rt, "x")
			return x.Mod(x, bigP)
		}
	}
	rapidCheck(t, "lz", tierN(2500, 150000), func(rt *rapid.T) {
		cfg := rapid.IntRange(0, 60).Draw(rt, "cfg")
		a := c14Lz{}
		switch {
		case cfg == 60:
			a.Mode, a.Bits = int(eng.ModeCommit), uint64(rapid.SampledFrom([]int{16, 32, 48}).Draw(rt, "b"))
		default:
			a.Mode = []int{int(eng.ModeNative), int(eng.ModePlain), int(eng.ModeNative), int(eng.ModeCommit)}[cfg%4]
			a.Force = cfg%4 >= 2
			a.Bits = uint64(rapid.IntRange(1, 63).Draw(rt, "b"))
		}
		resp := genResp(rt, a.Bits)
		if resp.Cmp(bigP) >= 0 {
			resp.Sub(resp, bigP)
		}
		a.Response = resp.String()
		class := fmt.Sprintf("leadingzeros/%s", eng.Mode(a.Mode))
		if a.Force {
			class += "+forced"
		}
		s.exec(rt, "lz", a, class)
	})
	// stratified over the circuit size: one size per geometric bucket (position inside the bucket derived
	// from VERIF_SEED) x builder, so that every window of sizes wider than the bucket ratio is hit in every run
	popRatio := 1.2
	if rec_thorough() {
		popRatio = 1.03
	}
	popItem := 0
	for lo := 1.0; lo < 48000; lo *= popRatio {
		hi := lo * popRatio
		if int(hi) <= int(lo) {
			continue
		}
		for _, backend := range []string{"r1cs", "scs", "r1cs+native-thin", "scs+native-thin"} {
			if strings.HasSuffix(backend, "native-thin") && lo > 4000 {
				continue // bit decomposition of every padding check: keep these circuits small
			}
			popItem++
			if !mine(popItem) {
				continue
			}
			h := rec.Hash(fmt.Sprint(rec.Seed(), "c14pop", popItem))
			a := c14Pop{Backend: backend, Bits: []uint64{16, 32, 48}[h%3], PadN: int(lo) - 1 + int((h>>8)%uint64(int(hi)-int(lo)))}
			if strings.HasSuffix(backend, "native-thin") {
				a.Bits = 1 + (h>>16)%63 // a native checker has no width restriction
			}
			lim := pow2(uint(64 - a.Bits))
			shift := uint(1 + (h>>40)%9)
			for _, resp := range []*big.Int{new(big.Int).Sub(lim, big.NewInt(1)), lim, new(big.Int).Add(lim, big.NewInt(1)), new(big.Int).Lsh(lim, shift)} {
				if resp.Cmp(bigP) >= 0 {
					continue
				}
				a.Response = resp.String()
				res := s.exec(t, "pop", a, "leadingzeros/compiled-commit/"+a.Backend)
				if res.Trivial {
					break // circuit refused by the chip: nothing to solve
				}
			}
		}
	}
	rapidCheck(t, "fri", tierN(40, 1500), func(rt *rapid.T) {
		b := rapid.SampledFrom(corp.Names).Draw(rt, "base")
		resp := genResp(rt, 16)
		if resp.Cmp(bigP) >= 0 {
			resp.Sub(resp, bigP)
		}
		a, class := c14Fri{Base: b, Response: resp.String()}, "VerifyFriProof/response-replaced"
		if rapid.Bool().Draw(rt, "other_chip_first") {
			w := rapid.SampledFrom([]uint64{0, 1, 8, 15, 20, 32}).Draw(rt, "first_chip_bits")
			a.FirstChipBits, class = &w, "VerifyFriProof/response-replaced/after-a-chip-of-another-difficulty"
		}
		s.exec(rt, "fri", a, class)
	})
	rapidCheck(t, "wit", tierN(70, 2500), func(rt *rapid.T) {
		base := rapid.SampledFrom(corp.Names).Draw(rt, "base")
		b := uint64(rapid.IntRange(1, 7).Draw(rt, "difficulty"))
		w := rapid.Uint64Range(0, ref.P-1).Draw(rt, "witness")
		class := "witness/random"
		if rapid.Bool().Draw(rt, "grind") {
			in := wv.Load(base, 1)
			for i := 0; i < 1<<10; i++ {
				if uint64(bits.LeadingZeros64(c14RefResponse(in, w))) >= b {
					break
				}
				w = (w + 1) % ref.P
			}
			class = "witness/ground"
		}
		s.exec(rt, "wit", c14Wit{base, w, b}, class)
	})
	r.Done()
}

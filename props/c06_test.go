package props

import (
	"encoding/json"
	"fmt"
	"math/big"
	"sync"
	"testing"

	"verif/cs"
	"verif/eng"
	"verif/gad"
	"verif/rec"

	"github.com/consensys/gnark/constraint/solver"
	"github.com/consensys/gnark/frontend"
	gl "github.com/wormhole-foundation/example-near-light-client/goldilocks"
	"pgregory.net/rapid"
)

// C06 Range checks enforce exact ranges in every backend configuration.
//
// Oracle: integer comparison.  RangeCheck(v) is satisfiable iff v < p; RangeCheckWithMaxBits(v,n)
// iff v < 2^n -- on the evaluation engine in every flavour (native range checker, commitment
// checker, bit decomposition, each also with the forcing environment variable), on gnark's own
// test engine and on compiled R1CS / SCS systems built for the three mechanisms.

const c06Pad = 70000 // range checks needed for the commit path to settle on 16-bit limbs

var c06Type int // chip's selected RangeCheckerType, read back through the verif hook

// width 0 = full Goldilocks RangeCheck; pad>0 adds that many 16-bit checks of in[1].
func c06Gadget(width uint64, pad int) gad.Fn {
	return func(api frontend.API, in []frontend.Variable) []frontend.Variable {
		c := gl.New(api)
		c06Type = int(c.VerifRangeCheckerType())
		if width == 0 {
			c.RangeCheck(glv(in[0]))
		} else {
			c.RangeCheckWithMaxBits(glv(in[0]), width)
		}
		for i := 0; i < pad; i++ {
			c.RangeCheckWithMaxBits(glv(in[1]), 16)
		}
		return nil
	}
}

// c06QE: the extension-element range check (two Goldilocks range checks) on a pair of values.
func c06QE(mode eng.Mode, x0, x1 *big.Int) (string, string) {
	fn := func(api frontend.API, in []frontend.Variable) []frontend.Variable {
		gl.New(api).RangeCheckQE(gl.QuadraticExtensionVariable{glv(in[0]), glv(in[1])})
		return nil
	}
	want := inRange(x0, 0) && inRange(x1, 0)
	res, _ := gad.Run(eng.Options{Mode: mode}, []*big.Int{x0, x1}, fn)
	if res.Outcome == eng.Refused {
		return "qe-refused", fmt.Sprintf("RangeCheckQE(%s, %s) refused under %s: %s", x0, x1, mode, fmtRes(res))
	}
	if want && res.TolerantHints > 0 {
		return "qe-hint-failed", fmt.Sprintf("RangeCheckQE(%s, %s): shipped hint failed on canonical values", x0, x1)
	}
	if (res.Outcome == eng.Accept) != want {
		return "qe-exact", fmt.Sprintf("RangeCheckQE(%s, %s) under %s: got %v, both coordinates canonical = %v (%s)", x0, x1, mode, res.Outcome, want, fmtRes(res))
	}
	if !want {
		// dishonest attempts: gnark's digit hint lumped, unconstrained division wires chosen by the prover
		for _, opt := range []eng.Options{{Mode: mode, LumpBits: true}, {Mode: mode, FreeDiv: big.NewInt(1)}} {
			if r2, _ := gad.Run(opt, []*big.Int{x0, x1}, fn); r2.Outcome == eng.Accept {
				return "qe-dishonest", fmt.Sprintf("RangeCheckQE(%s, %s) under %s is satisfiable with dishonest auxiliary values", x0, x1, mode)
			}
		}
	}
	return "", ""
}

// c06QECarry: RangeCheckQE(y0, y1) with both limb hints answered by the limbs of (c0, c1); true = accepted.
func c06QECarry(mode eng.Mode, y0, y1, c0, c1 *big.Int) bool {
	split := func(c *big.Int) eng.Subst {
		return eng.Subst{Strategy: "set", Vals: []*big.Int{new(big.Int).Rsh(c, 32), new(big.Int).And(c, big.NewInt(0xffffffff))}}
	}
	fn := func(api frontend.API, in []frontend.Variable) []frontend.Variable {
		gl.New(api).RangeCheckQE(gl.QuadraticExtensionVariable{glv(in[0]), glv(in[1])})
		return nil
	}
	res, _ := gad.Run(eng.Options{Mode: mode, Plan: eng.Plan{0: split(c0), 1: split(c1)}}, []*big.Int{y0, y1}, fn)
	return res.Outcome == eng.Accept
}

type c06Config struct {
	Mode  eng.Mode
	Force bool
}

func (c c06Config) String() string {
	s := c.Mode.String()
	if c.Force {
		s += "+forced"
	}
	return s
}

var c06EngConfigs = []c06Config{
	{eng.ModeNative, false}, {eng.ModePlain, false}, {eng.ModeNative, true}, {eng.ModePlain, true}, {eng.ModeCommit, true}, {eng.ModeCommit, false},
}

func inRange(v *big.Int, width uint64) bool {
	if width == 0 {
		return v.Cmp(bigP) < 0
	}
	return v.BitLen() <= int(width)
}

// genRCValue draws a value around the boundaries of the range and of the field.
func genRCValue(width uint64) *rapid.Generator[*big.Int] {
	return rapid.Custom(func(t *rapid.T) *big.Int {
		var anchors []*big.Int
		if width == 0 {
			anchors = []*big.Int{big.NewInt(0), pow2(16), pow2(32), pow2(48), pow2(63), new(big.Int).Sub(pow2(64), pow2(32)), bigP, pow2(64), pow2(65), pow2(96), new(big.Int).Mul(bigP, big.NewInt(2)), bigR}
		} else {
			anchors = []*big.Int{big.NewInt(0), pow2(uint(width) - 1), pow2(uint(width)), pow2(uint(width) + 1), pow2(uint(width) + 15), bigP, pow2(64), bigR}
		}
		switch rapid.IntRange(0, 4).Draw(t, "vkind") {
		case 4:
			// field fractions y / 2^k mod r with a small numerator: what a check of a scaled value
			// (x * 2^k < 2^(n+k)) or a wrapped limb recomposition would accept
			k := rapid.SampledFrom([]int{1, 2, 7, 8, 15, 16, 24, 31, 32, 48, 64}).Draw(t, "k")
			if width%16 != 0 && rapid.Bool().Draw(t, "pad") {
				k = int(16 - width%16)
			}
			y := genBigBelow(pow2(uint(rapid.IntRange(1, 40).Draw(t, "ybits")))).Draw(t, "y")
			y.Add(y, big.NewInt(1))
			x := new(big.Int).Mul(y, new(big.Int).ModInverse(pow2(uint(k)), bigR))
			return x.Mod(x, bigR)
		case 0, 1:
			a := rapid.SampledFrom(anchors).Draw(t, "anchor")
			d := int64(rapid.IntRange(-2, 2).Draw(t, "delta"))
			x := new(big.Int).Add(a, big.NewInt(d))
			return x.Mod(x, bigR)
		case 2:
			n := rapid.IntRange(1, 254).Draw(t, "bitlen")
			x := genBigBelow(pow2(uint(n))).Draw(t, "x")
			return x.Mod(x, bigR)
		default:
			// inside the range
			var bound *big.Int
			if width == 0 {
				bound = bigP
			} else {
				bound = pow2(uint(width))
			}
			if bound.Cmp(bigR) > 0 {
				bound = bigR
			}
			return genBigBelow(bound).Draw(t, "x")
		}
	})
}

func nearBoundary(v *big.Int, width uint64) bool {
	var b *big.Int
	if width == 0 {
		b = bigP
	} else {
		b = pow2(uint(width))
	}
	d := new(big.Int).Sub(v, b)
	return d.CmpAbs(big.NewInt(2)) <= 0 || v.BitLen() <= 2 || new(big.Int).Sub(bigR, v).Cmp(big.NewInt(2)) <= 0
}

var c06Widths = append(func() []uint64 {
	var w []uint64
	for i := uint64(1); i <= 64; i++ {
		w = append(w, i)
	}
	return w
}(), 96, 128, 144, 192)

type c06Replay struct {
	Backend string `json:"backend"` // eng | r1cs | scs | gnark-engine
	Config  string `json:"config"`
	Mode    int    `json:"mode"`
	Force   bool   `json:"force"`
	Mech    int    `json:"mech"`
	Width   uint64 `json:"width"`
	V       string `json:"v"`
	Subst   string `json:"subst,omitempty"`
	SubstK  string `json:"subst_k,omitempty"`
	SubstV  string `json:"subst_val,omitempty"`
	Const   bool   `json:"constant_operand,omitempty"` // the checked value is a circuit constant
}

// c06Const: the range check applied to a circuit CONSTANT v (compiled system).  A system that cannot be built
// for an out-of-range constant is a rejection; one that compiles must solve iff v is in range.  (Compile
// failures for in-range constants are not judged here: gnark's own constant folding has defects of its own.)
func c06Const(kind cs.Kind, mech cs.Mech, width uint64, v *big.Int) (string, string, string) {
	fn := func(api frontend.API, in []frontend.Variable) []frontend.Variable {
		c := gl.New(api)
		if width == 0 {
			c.RangeCheck(gl.NewVariable(new(big.Int).Set(v)))
		} else {
			c.RangeCheckWithMaxBits(gl.NewVariable(new(big.Int).Set(v)), width)
		}
		c.RangeCheckWithMaxBits(glv(in[0]), 16)
		c.RangeCheckWithMaxBits(glv(in[1]), 16)
		return nil
	}
	sys, err := cs.Compile(kind, mech, 2, 0, fn)
	if err != nil {
		return "", "", "not-compiled"
	}
	serr := sys.Solve([]*big.Int{big.NewInt(0), big.NewInt(0)}, nil)
	want := inRange(v, width)
	if (serr == nil) != want {
		return fmt.Sprintf("constant-operand/%s/%s/%v", kind, mech, want), fmt.Sprintf("range check (width %d, 0 = Goldilocks) of the circuit constant %s compiled for %s with the %s mechanism: solver says %v, in range = %v", width, v, kind, mech, serr, want), "judged"
	}
	return "", "", "judged"
}

// c06Eng evaluates one engine case; returns (key, description) of a violation or "".
func c06Eng(cfg c06Config, width uint64, v *big.Int, sub *eng.Subst) (string, string, eng.Result) {
	pad := 0
	if cfg.Mode == eng.ModeCommit && !cfg.Force {
		pad = c06Pad
	}
	opt := eng.Options{Mode: cfg.Mode, ForceBitDecomp: cfg.Force}
	if sub != nil {
		opt.Plan = eng.Plan{0: *sub}
	}
	res, _ := gad.Run(opt, []*big.Int{v, big.NewInt(0)}, c06Gadget(width, pad))
	want := inRange(v, width)
	if !want && res.Outcome == eng.Reject && pad == 0 {
		// second attempt of the same out-of-range value with gnark's own bit-decomposition hint
		// answered dishonestly (digits = (value,0,0,..)) and, for the Goldilocks check, limbs (0, v)
		opt2 := opt
		opt2.LumpBits = true
		if width == 0 {
			opt2.Plan = eng.Plan{0: eng.Subst{Strategy: "set", Vals: []*big.Int{big.NewInt(0), v}}}
		}
		if r2, _ := gad.Run(opt2, []*big.Int{v, big.NewInt(0)}, c06Gadget(width, pad)); r2.Outcome == eng.Accept {
			name := "RangeCheck"
			if width != 0 {
				name = fmt.Sprintf("RangeCheckWithMaxBits(%d)", width)
			}
			return "dishonest-digits/" + cfg.String(), fmt.Sprintf("%s(%s) under %s is satisfiable when the bit-decomposition hint returns non-boolean digits (%d such hints answered)", name, v, cfg, r2.LumpedBits), r2
		}
	}
	if !want && res.Outcome == eng.Reject && res.FreeDivs > 0 {
		// the rejected run went through DivUnchecked(0,0): that wire is unconstrained in compiled systems, so
		// the prover may put anything there (with limbs chosen freely as well)
		for _, fd := range []int64{1, 2} {
			opt3 := opt
			opt3.FreeDiv = big.NewInt(fd)
			for _, plan := range []eng.Plan{opt.Plan, {0: eng.Subst{Strategy: "set", Vals: []*big.Int{new(big.Int).Rsh(v, 32), new(big.Int).And(v, big.NewInt(0xffffffff))}}}} {
				opt3.Plan = plan
				if r3, _ := gad.Run(opt3, []*big.Int{v, big.NewInt(0)}, c06Gadget(width, pad)); r3.Outcome == eng.Accept {
					return "free-wire/" + cfg.String(), fmt.Sprintf("range check of %s (width %d, 0 = Goldilocks) under %s is satisfiable when the unconstrained result of DivUnchecked(0,0) is chosen as %d (%d such wires)", v, width, cfg, fd, r3.FreeDivs), r3
				}
			}
		}
	}
	name := "RangeCheck"
	if width != 0 {
		name = fmt.Sprintf("RangeCheckWithMaxBits(%d)", width)
	}
	if res.Outcome == eng.Refused {
		if cfg.Mode == eng.ModeCommit && !cfg.Force && width%16 != 0 {
			return "", "", res // documented refusal: commit widths must be multiples of 16
		}
		return "refused/" + cfg.String(), fmt.Sprintf("%s refused under %s: %s", name, cfg, fmtRes(res)), res
	}
	got := res.Outcome == eng.Accept
	if sub != nil && len(res.Injected) == 1 && !res.Injected[0].Differs {
		sub = nil
	}
	switch {
	case sub == nil && got != want:
		return fmt.Sprintf("exact/%s/%v", cfg, want), fmt.Sprintf("%s(%s) under %s: got %v, in range = %v (%s)", name, v, cfg, res.Outcome, want, fmtRes(res)), res
	case sub != nil && got && !want:
		return fmt.Sprintf("dishonest/%s", cfg), fmt.Sprintf("%s(%s) under %s accepted with substituted limbs %v", name, v, cfg, res.Injected[0].Subst), res
	}
	return "", "", res
}

type c06SysKey struct {
	kind  cs.Kind
	mech  cs.Mech
	width uint64
}

var (
	c06Systems = map[c06SysKey]*cs.System{}
	c06SysErr  = map[c06SysKey]error{}
	c06SysMu   sync.Mutex
)

func c06System(k c06SysKey) (*cs.System, error) {
	c06SysMu.Lock()
	defer c06SysMu.Unlock()
	if s, ok := c06Systems[k]; ok {
		return s, c06SysErr[k]
	}
	pad := 0
	if k.mech == cs.MechCommit {
		pad = c06Pad
	}
	s, err := cs.Compile(k.kind, k.mech, 2, 0, c06Gadget(k.width, pad))
	c06Systems[k], c06SysErr[k] = s, err
	return s, err
}

func c06Compiled(k c06SysKey, v *big.Int, override solver.Hint) (string, string) {
	sys, err := c06System(k)
	name := fmt.Sprintf("%s/%s/width=%d", k.kind, k.mech, k.width)
	if err != nil {
		if k.mech == cs.MechCommit && k.width%16 != 0 {
			return "", ""
		}
		return "refused/" + k.kind.String() + "/" + k.mech.String(), fmt.Sprintf("compile of %s refused: %v", name, err)
	}
	var opts []solver.Option
	if override != nil {
		opts = append(opts, solver.OverrideHint(solver.GetHintID(gl.SplitLimbsHint), override))
	}
	serr := sys.Solve([]*big.Int{v, big.NewInt(0)}, nil, opts...)
	got, want := serr == nil, inRange(v, k.width)
	if !want && !got && override == nil && k.mech != cs.MechCommit {
		// dishonest gnark bit-decomposition hint (digits = (value,0,0,...)), plus limbs (0,v) for the Goldilocks check
		if nb := findNBits(); nb != nil {
			lump := func(q *big.Int, in, out []*big.Int) error {
				for i := range out {
					out[i].SetInt64(0)
				}
				out[0].Set(in[0])
				return nil
			}
			o2 := []solver.Option{solver.OverrideHint(solver.GetHintID(nb), lump)}
			if k.width == 0 {
				o2 = append(o2, solver.OverrideHint(solver.GetHintID(gl.SplitLimbsHint), func(q *big.Int, in, out []*big.Int) error {
					out[0].SetInt64(0)
					out[1].Set(in[0])
					return nil
				}))
			}
			if sys.Solve([]*big.Int{v, big.NewInt(0)}, nil, o2...) == nil {
				return fmt.Sprintf("dishonest-digits/%s/%s", k.kind, k.mech), fmt.Sprintf("%s value %s is satisfiable when the bit-decomposition hint returns non-boolean digits", name, v)
			}
		}
	}
	if override == nil && got != want {
		return fmt.Sprintf("exact/%s/%s/%v", k.kind, k.mech, want), fmt.Sprintf("%s value %s: solved=%v, in range=%v (%v)", name, v, got, want, serr)
	}
	if override != nil && got && !want {
		return fmt.Sprintf("dishonest/%s/%s", k.kind, k.mech), fmt.Sprintf("%s value %s accepted with dishonest limb hint", name, v)
	}
	return "", ""
}

func genLimbSubst() *rapid.Generator[eng.Subst] {
	return rapid.Custom(func(t *rapid.T) eng.Subst {
		switch rapid.IntRange(0, 2).Draw(t, "skind") {
		case 0:
			return eng.Subst{Strategy: "limbs", K: bu(rapid.Uint64Range(1, 4).Draw(t, "k")), Neg: rapid.Bool().Draw(t, "neg")}
		case 1:
			return eng.Subst{Strategy: "limbsolve", Val: genBigBelow(pow2(32)).Draw(t, "lo")}
		default:
			return eng.Subst{Strategy: "set", Vals: []*big.Int{genBigBelow(pow2(33)).Draw(t, "hi"), genBigBelow(pow2(33)).Draw(t, "lo")}}
		}
	})
}

// ---------- populations of collected checks (commit checker) ----------
// The commit checker's limb width depends on how many checks of which widths the whole circuit
// collects; the chip mirrors gnark's estimate and refuses circuits where it is not 16.  Whatever
// the population, a circuit that compiles must enforce the exact range.

type c06Pop struct {
	Backend string `json:"backend"` // r1cs | scs
	Width   uint64 `json:"width"`   // width of the check under test
	PadN    int    `json:"pad_count"`
	PadFull bool   `json:"pad_full_rangecheck"`        // pad with Goldilocks RangeCheck (two 32-bit checks) instead of 16-bit checks
	Pad32   bool   `json:"pad_32bit_checks,omitempty"` // pad with single 32-bit checks
	V       string `json:"v"`
}

var c06PopSystems = map[string]c06PopSys{}

type c06PopSys struct {
	sys *cs.System
	err error
}

func c06PopRun(a c06Pop) (string, string, string) {
	key := fmt.Sprintf("%s/%d/%d/%v/%v", a.Backend, a.Width, a.PadN, a.PadFull, a.Pad32)
	ps, ok := c06PopSystems[key]
	if !ok {
		kind := cs.R1CS
		if a.Backend == "scs" {
			kind = cs.SCS
		}
		fn := func(api frontend.API, in []frontend.Variable) []frontend.Variable {
			c := gl.New(api)
			c.RangeCheckWithMaxBits(glv(in[0]), a.Width)
			for i := 0; i < a.PadN; i++ {
				if a.PadFull {
					c.RangeCheck(glv(in[1]))
				} else if a.Pad32 {
					c.RangeCheckWithMaxBits(glv(in[1]), 32)
				} else {
					c.RangeCheckWithMaxBits(glv(in[1]), 16)
				}
			}
			return nil
		}
		ps.sys, ps.err = cs.Compile(kind, cs.MechCommit, 2, 0, fn)
		if len(c06PopSystems) > 6 {
			c06PopSystems = map[string]c06PopSys{}
		}
		c06PopSystems[key] = ps
	}
	if ps.err != nil {
		return "", "", "refused"
	}
	v := bs(a.V)
	serr := ps.sys.Solve([]*big.Int{v, big.NewInt(0)}, nil)
	if (serr == nil) != inRange(v, a.Width) {
		return "population/" + a.Backend, fmt.Sprintf("%s circuit with one %d-bit check and %d padding checks (commit checker) compiles, but value %s: solved=%v, in range=%v", a.Backend, a.Width, a.PadN, v, serr == nil, inRange(v, a.Width)), "compiled"
	}
	return "", "", "compiled"
}

// gnarkWidthCriticalSizes returns the padding counts n in [0, max] at which gnark v0.9.1's
// std/rangecheck limb-width choice for the population {one w-bit check + n paddings} changes between
// n-1 and n or is tied between two widths, each with its neighbours n-1 and n+1.  padKind: 0 = 16-bit
// checks, 1 = 32-bit checks, 2 = Goldilocks RangeCheck (two 32-bit checks).
func gnarkWidthCriticalSizes(w, padKind int, plonk bool, max int) []int {
	padBits, per := 16, 1
	if padKind == 1 {
		padBits = 32
	} else if padKind == 2 {
		padBits, per = 32, 2
	}
	choice := func(n int) (best int, tied bool) {
		min := int(^uint(0) >> 1)
		for j := 2; j < 18; j++ {
			d := (w+j-1)/j + per*n*((padBits+j-1)/j)
			cnt := 1 + per*n
			cost := (1 << j) + d + cnt + 1
			if plonk {
				cost = 3*(1<<j) + 4*d + 1
			}
			if cost < min {
				min, best, tied = cost, j, false
			} else if cost == min {
				tied = true
			}
		}
		return
	}
	seen := map[int]bool{}
	var out []int
	add := func(n int) {
		if n >= 0 && n <= max && !seen[n] {
			seen[n] = true
			out = append(out, n)
		}
	}
	prev, _ := choice(0)
	for n := 1; n <= max; n++ {
		b, tied := choice(n)
		if tied || b != prev {
			add(n - 1)
			add(n)
			add(n + 1)
		}
		prev = b
	}
	return out
}

func TestC06(t *testing.T) {
	r := rec.New("C06")
	defer r.Flush()
	r.Rule("value v (anchors 0, 2^16, 2^32, 2^48, 2^63, 2^64-2^32, p, 2^64, 2^n-1.., r with offsets -2..2; random of every bit length; random inside the range; field fractions y/2^k mod r with small y) x gadget {RangeCheck, RangeCheckQE on pairs, RangeCheckWithMaxBits(n), n in 1..64,96,128,144,192} x configuration {engine: native / plain / commit(padded to 70k checks), each also with USE_BIT_DECOMPOSITION_RANGE_CHECK; compiled R1CS and SCS built for native-range-checker wrapper (two kinds: one whose Compiler() is the wrapper, a thin one whose Compiler() is the plain builder) / commit / forced bits; gnark test engine}; out-of-range values are also tried with dishonest limb hints and a dishonest bit-decomposition hint; 'populations': one w-bit check (w in 16,32,48,64) plus 0..72000 padding checks compiled for R1CS and SCS under the commit checker - circuits the chip refuses are counted, circuits that compile must be exact at 2^w-1, 2^(w+j), 2^(w+j)+1; sizes are rapid-drawn and additionally swept with one size per geometric bucket of ratio 1.15 (thorough 1.04) per builder and padding kind, and at every size where gnark's limb-width optimiser (cost formulas re-implemented from gnark's source) changes its choice or is tied, +-1.  Oracle: accepted <=> v < p (resp. v < 2^n); commit-mode widths not multiple of 16 may be refused.  (B1') the checked operand is a circuit constant (R1CS/SCS x forced bits / native mechanism x widths 0, 8, 32, 64 x boundary constants): a system that compiles must solve iff the constant is in range.  Non-trivial = value within 2 of a range/field boundary or a dishonest hint; distinct = (v, n, configuration, hint).")
	r.Assume("gnark v0.9.1 builders/solver and std/rangecheck as shipped", "the native-range-checker builder wrapper implements Check by bit decomposition inside the wrapped builder")

	var rp c06Replay
	if is, err := rec.LoadReplay(&rp); is {
		if err == nil && rp.Backend == "qe-carry" {
			r.Case("replay", true, fmt.Sprint(rp), func() any { return rp })
			if c06QECarry(eng.Mode(rp.Mode), bs(rp.V), bs(rp.SubstV), bs(rp.SubstK), bs(rp.Config)) {
				r.Fail(t, "C06/qe-cross-coordinate", rp, "RangeCheckQE(%s, %s) accepted with the limbs of (%s, %s)", rp.V, rp.SubstV, rp.SubstK, rp.Config)
			}
			r.Done()
			return
		}
		if err == nil && rp.Backend == "qe" {
			k, d := c06QE(eng.Mode(rp.Mode), bs(rp.V), bs(rp.SubstV))
			r.Case("replay", true, fmt.Sprint(rp), func() any { return rp })
			if k != "" {
				r.Fail(t, "C06/"+k, rp, "%s", d)
			}
			r.Done()
			return
		}
		if err == nil && rp.Backend == "population" {
			var a c06Pop
			json.Unmarshal([]byte(rp.Config), &a)
			k, d, _ := c06PopRun(a)
			r.Case("replay", true, rp.Config, func() any { return a })
			if k != "" {
				r.Fail(t, "C06/"+k, rp, "%s", d)
			}
			r.Done()
			return
		}
		if err != nil {
			r.Infra(t, "replay: %v", err)
		}
		v := bs(rp.V)
		var k, d string
		if rp.Backend == "eng" {
			var sub *eng.Subst
			if rp.Subst != "" {
				sub = &eng.Subst{Strategy: rp.Subst}
				if rp.SubstK != "" {
					sub.K = bs(rp.SubstK)
				}
				if rp.SubstV != "" {
					sub.Val = bs(rp.SubstV)
				}
			}
			k, d, _ = c06Eng(c06Config{eng.Mode(rp.Mode), rp.Force}, rp.Width, v, sub)
		} else {
			kind := cs.R1CS
			if rp.Backend == "scs" {
				kind = cs.SCS
			}
			if rp.Const {
				k, d, _ = c06Const(kind, cs.Mech(rp.Mech), rp.Width, v)
			} else {
				k, d = c06Compiled(c06SysKey{kind, cs.Mech(rp.Mech), rp.Width}, v, nil)
			}
		}
		r.Case("replay", true, fmt.Sprint(rp), func() any { return rp })
		if k != "" {
			r.Fail(t, "C06/"+k, rp, "%s", d)
		}
		r.Done()
		return
	}

	types := map[string]int{}
	// A. evaluation engine, all flavours
	rapidCheck(t, "eng", tierN(6000, 400000), func(rt *rapid.T) {
		var width uint64
		if rapid.IntRange(0, 2).Draw(rt, "full") != 0 {
			width = rapid.SampledFrom(c06Widths).Draw(rt, "width")
		}
		ci := rapid.IntRange(0, 40).Draw(rt, "cfg")
		cfg := c06EngConfigs[ci%5]
		if ci == 40 {
			cfg = c06EngConfigs[5] // padded commit flavour is ~100x slower: 1 case in 41
			if width%16 != 0 && rapid.Bool().Draw(rt, "align") {
				width = 16 * ((width + 15) / 16) // unaligned widths must be refused; aligned ones must be exact
			}
		}
		v := genRCValue(width).Draw(rt, "v")
		var sub *eng.Subst
		if width == 0 && !inRange(v, 0) && rapid.Bool().Draw(rt, "dishonest") {
			s := genLimbSubst().Draw(rt, "subst")
			sub = &s
		}
		class := "eng/" + cfg.String()
		if sub != nil {
			class += "/dishonest"
		}
		r.Case(class, sub != nil || nearBoundary(v, width), fmt.Sprint(cfg, width, v, sub), func() any {
			return map[string]any{"config": cfg.String(), "width": width, "v": v.String(), "dishonest": sub}
		})
		k, d, _ := c06Eng(cfg, width, v, sub)
		types[cfg.String()] = c06Type
		if k != "" {
			rep := c06Replay{Backend: "eng", Config: cfg.String(), Mode: int(cfg.Mode), Force: cfg.Force, Width: width, V: v.String()}
			if sub != nil {
				rep.Subst = sub.Strategy
				if sub.K != nil {
					rep.SubstK = sub.K.String()
				}
				if sub.Val != nil {
					rep.SubstV = sub.Val.String()
				}
			}
			r.Fail(rt, "C06/"+k, rep, "%s", d)
		}
	})
	r.Extra("selected_range_checker_type_by_engine_config", types)
	// A'. extension elements: pairs of values through RangeCheckQE (what the verifier applies to openings)
	rapidCheck(t, "qe", tierN(1500, 60000), func(rt *rapid.T) {
		pick := func(n string) *big.Int {
			if rapid.IntRange(0, 2).Draw(rt, n+"kind") == 0 {
				return bu(genGL().Draw(rt, n)) // canonical, edge-heavy (p-1, 2^32-1, ...)
			}
			return genRCValue(0).Draw(rt, n)
		}
		x0, x1 := pick("x0"), pick("x1")
		m := genMode().Draw(rt, "mode")
		if rapid.IntRange(0, 4).Draw(rt, "carry") == 0 {
			// a pair that is congruent to a canonical pair (c0, c1) under the packing c0 + 2^64*c1, offered together
			// with the limbs of (c0, c1): an aggregate recomposition check would accept it
			c0, c1 := bu(genGL().Draw(rt, "c0")), bu(genGL().Draw(rt, "c1"))
			k := big.NewInt(int64(rapid.IntRange(1, 1<<20).Draw(rt, "k")))
			y0 := new(big.Int).Sub(c0, new(big.Int).Lsh(k, 64))
			y0.Mod(y0, bigR)
			y1 := new(big.Int).Add(c1, k)

			r.Case("eng-qe/"+m.String()+"/cross-coordinate-carry", true, fmt.Sprint("qecarry", m, y0, y1), func() any {
				return map[string]any{"gadget": "RangeCheckQE", "x0": y0.String(), "x1": y1.String(), "limbs_of": []string{c0.String(), c1.String()}}
			})
			if c06QECarry(m, y0, y1, c0, c1) {
				r.Fail(rt, "C06/qe-cross-coordinate", c06Replay{Backend: "qe-carry", Mode: int(m), V: y0.String(), SubstV: y1.String(), SubstK: c0.String(), Config: c1.String()}, "RangeCheckQE(%s, %s) under %s is ACCEPTED when the limb hints answer with the limbs of (%s, %s): the two coordinates are not bound separately", y0, y1, m, c0, c1)
			}
		}
		r.Case("eng-qe/"+m.String(), nearBoundary(x0, 0) || nearBoundary(x1, 0), fmt.Sprint("qe", m, x0, x1), func() any {
			return map[string]any{"gadget": "RangeCheckQE", "mode": m.String(), "x0": x0.String(), "x1": x1.String()}
		})
		if k, d := c06QE(m, x0, x1); k != "" {
			r.Fail(rt, "C06/"+k, c06Replay{Backend: "qe", Mode: int(m), V: x0.String(), SubstV: x1.String()}, "%s", d)
		}
	})

	// B. compiled constraint systems
	compWidths := []uint64{0, 1, 8, 16, 31, 32, 33, 63, 64, 96, 144, 192}
	commitWidths := []uint64{0, 16, 64, 144}
	if rec.Thorough() {
		compWidths = append([]uint64{0}, c06Widths...)
		commitWidths = []uint64{0, 16, 32, 48, 64, 96, 128, 144, 192, 17, 31, 1, 8, 15, 33, 63}
	} else {
		commitWidths = append(commitWidths, 17, 8)
	}
	var keys []c06SysKey
	for _, kind := range []cs.Kind{cs.R1CS, cs.SCS} {
		for _, mech := range []cs.Mech{cs.MechNative, cs.MechForcedBits} {
			for _, w := range compWidths {
				keys = append(keys, c06SysKey{kind, mech, w})
			}
		}
		// thin wrapper (only adds Check; its Compiler() is the plain builder underneath)
		for _, w := range []uint64{0, 1, 17, 33, 48, 63} {
			keys = append(keys, c06SysKey{kind, cs.MechNativeThin, w})
		}
		for _, w := range commitWidths {
			keys = append(keys, c06SysKey{kind, cs.MechCommit, w})
		}
	}
	for i, k := range keys {
		if !rec.Mine(i) {
			continue
		}
		k := k
		n := tierN(24, 300)
		if k.mech == cs.MechCommit {
			n = tierN(10, 60)
		}
		// deterministic boundary set of this system (incl. the next multiple of 16 bits, which is what a
		// limb-aligned checker would enforce instead of the requested width)
		var bnd []*big.Int
		if k.width == 0 {
			bnd = []*big.Int{new(big.Int).Sub(bigP, big.NewInt(1)), bigP, new(big.Int).Add(bigP, big.NewInt(1)), new(big.Int).Sub(pow2(64), big.NewInt(1)), pow2(64)}
		} else {
			al := uint(16 * ((k.width + 15) / 16))
			bnd = []*big.Int{new(big.Int).Sub(pow2(uint(k.width)), big.NewInt(1)), pow2(uint(k.width)), new(big.Int).Add(pow2(uint(k.width)), big.NewInt(1)), new(big.Int).Sub(pow2(al), big.NewInt(1)), pow2(al), new(big.Int).Sub(bigR, big.NewInt(1)),
				new(big.Int).ModInverse(pow2(al-uint(k.width)+16*uint((16-(al-uint(k.width)))/16)), bigR), new(big.Int).ModInverse(pow2(16), bigR)}
		}
		for _, v := range bnd {
			v := v
			r.Case(fmt.Sprintf("%s/%s/boundary", k.kind, k.mech), true, fmt.Sprint(k, v), func() any {
				return map[string]any{"backend": k.kind.String(), "mechanism": k.mech.String(), "width": k.width, "v": v.String()}
			})
			if key, d := c06Compiled(k, v, nil); key != "" {
				r.Fail(t, "C06/"+key, c06Replay{Backend: k.kind.String(), Mech: int(k.mech), Width: k.width, V: v.String()}, "%s", d)
			}
		}
		rec.SetRapid(fmt.Sprintf("compiled/%v", k), n)
		rapid.Check(t, func(rt *rapid.T) {
			v := genRCValue(k.width).Draw(rt, "v")
			class := fmt.Sprintf("%s/%s", k.kind, k.mech)
			r.Case(class, nearBoundary(v, k.width), fmt.Sprint(k, v), func() any {
				return map[string]any{"backend": k.kind.String(), "mechanism": k.mech.String(), "width": k.width, "v": v.String()}
			})
			if key, d := c06Compiled(k, v, nil); key != "" {
				r.Fail(rt, "C06/"+key, c06Replay{Backend: k.kind.String(), Mech: int(k.mech), Width: k.width, V: v.String()}, "%s", d)
			}
			if k.width == 0 && !inRange(v, 0) && v.BitLen() <= 96 {
				// dishonest limb hint: lo drawn, hi solved in the field
				lo := genBigBelow(pow2(32)).Draw(rt, "lo")
				hint := func(q *big.Int, in, out []*big.Int) error {
					out[1].Set(lo)
					d := new(big.Int).Sub(in[0], lo)
					d.Mul(d, new(big.Int).ModInverse(pow2(32), q))
					out[0].Mod(d, q)
					return nil
				}
				r.Case(class+"/dishonest", true, fmt.Sprint(k, v, lo), nil)
				if key, d := c06Compiled(k, v, hint); key != "" {
					r.Fail(rt, "C06/"+key, c06Replay{Backend: k.kind.String(), Mech: int(k.mech), Width: k.width, V: v.String(), Subst: "limbsolve", SubstV: lo.String()}, "%s", d)
				}
			}
		})
	}

	// B1'. the checked operand is a circuit constant
	constJudged, constNotCompiled := 0, 0
	ci := 0
	for _, kind := range []cs.Kind{cs.R1CS, cs.SCS} {
		for _, mech := range []cs.Mech{cs.MechForcedBits, cs.MechNative} {
			for _, w := range []uint64{0, 8, 32, 64} {
				ci++
				if !rec.Mine(ci) {
					continue
				}
				vals := []*big.Int{big.NewInt(1), pow2(32), new(big.Int).Sub(bigP, big.NewInt(1)), bigP, new(big.Int).Add(bigP, big.NewInt(1)), new(big.Int).Sub(pow2(64), big.NewInt(1)), pow2(64)}
				if w != 0 {
					vals = []*big.Int{big.NewInt(1), new(big.Int).Sub(pow2(uint(w)), big.NewInt(1)), pow2(uint(w)), new(big.Int).Add(pow2(uint(w)), big.NewInt(1)), pow2(uint(w) + 16)}
				}
				for _, v := range vals {
					key, d, st := c06Const(kind, mech, w, v)
					if st == "judged" {
						constJudged++
					} else {
						constNotCompiled++
					}
					v := v
					r.Case(fmt.Sprintf("%s/%s/constant-operand", kind, mech), st == "judged", fmt.Sprint("const", kind, mech, w, v), func() any {
						return map[string]any{"backend": kind.String(), "mechanism": mech.String(), "width": w, "constant": v.String(), "status": st}
					})
					if key != "" {
						r.Fail(t, "C06/"+key, c06Replay{Backend: kind.String(), Mech: int(mech), Width: w, V: v.String(), Const: true}, "%s", d)
					}
				}
			}
		}
	}
	r.Extra("constant_operand_systems", fmt.Sprintf("judged=%d not_compiled=%d", constJudged, constNotCompiled))

	// B2. populations of collected checks under the commit checker
	popRefused, popCompiled := 0, 0
	rapidCheck(t, "population", tierN(45, 1500), func(rt *rapid.T) {
		a := c06Pop{Backend: rapid.SampledFrom([]string{"r1cs", "scs", "scs"}).Draw(rt, "backend"), Width: rapid.SampledFrom([]uint64{16, 32, 48, 64}).Draw(rt, "width"), PadFull: rapid.Bool().Draw(rt, "pad_full")}
		switch rapid.IntRange(0, 9).Draw(rt, "size") {
		case 0, 1, 2:
			a.PadN = rapid.IntRange(0, 40).Draw(rt, "pad")
		case 3, 4, 5, 6:
			a.PadN = rapid.IntRange(41, 4000).Draw(rt, "pad")
		case 7, 8:
			a.PadN = rapid.IntRange(4001, 40000).Draw(rt, "pad")
		default:
			a.PadN = rapid.IntRange(60000, 72000).Draw(rt, "pad")
		}
		shift := rapid.IntRange(0, 9).Draw(rt, "shift")
		vals := []*big.Int{new(big.Int).Sub(pow2(uint(a.Width)), big.NewInt(1)), pow2(uint(a.Width) + uint(shift)), new(big.Int).Add(pow2(uint(a.Width)+uint(shift)), big.NewInt(1))}
		for _, v := range vals {
			a.V = v.String()
			k, d, st := c06PopRun(a)
			if st == "refused" {
				popRefused++
			} else {
				popCompiled++
			}
			r.Case("population/"+a.Backend+"/"+st, true, fmt.Sprint(a), func() any { return a })
			if k != "" {
				cfg, _ := json.Marshal(a)
				r.Fail(rt, "C06/"+k, c06Replay{Backend: "population", Config: string(cfg), Width: a.Width, V: a.V}, "%s", d)
			}
			if st == "refused" {
				break
			}
		}
	})
	// B3. stratified sweep over the circuit size: one size in every geometric bucket [g^i, g^(i+1))
	// (position inside the bucket derived from VERIF_SEED) x builder x padding kind, so that every
	// window of sizes wider than the bucket ratio - e.g. where the R1CS and the PLONK cost model of the
	// limb-width optimiser disagree - is hit in every run.
	ratio := 1.15
	if rec.Thorough() {
		ratio = 1.04
	}
	item := 0
	for lo := 1.0; lo < 72000; lo *= ratio {
		hi := lo * ratio
		if int(hi) <= int(lo) {
			continue
		}
		for _, backend := range []string{"r1cs", "scs"} {
			for _, full := range []bool{false, true} {
				item++
				if !rec.Mine(item) {
					continue
				}
				h := rec.Hash(fmt.Sprint(rec.Seed(), "popsweep", item))
				a := c06Pop{Backend: backend, PadFull: full, Width: []uint64{16, 32, 48, 64}[h%4]}
				a.PadN = int(lo) + int((h>>8)%uint64(int(hi)-int(lo)))
				if full {
					a.PadN /= 2 // a Goldilocks RangeCheck collects two 32-bit checks
				}
				for _, sh := range []uint{0, uint(1 + (h>>40)%9)} {
					stop := false
					for _, v := range []*big.Int{new(big.Int).Sub(pow2(uint(a.Width)), big.NewInt(1)), pow2(uint(a.Width) + sh), new(big.Int).Add(pow2(uint(a.Width)+sh), big.NewInt(1))} {
						a.V = v.String()
						k, d, st := c06PopRun(a)
						if st == "refused" {
							popRefused++
							stop = true
						} else {
							popCompiled++
						}
						r.Case("population-sweep/"+a.Backend+"/"+st, st != "refused", fmt.Sprint(a), func() any { return a })
						if k != "" {
							cfg, _ := json.Marshal(a)
							r.Fail(t, "C06/"+k, c06Replay{Backend: "population", Config: string(cfg), Width: a.Width, V: a.V}, "%s", d)
						}
						if stop {
							break
						}
					}
					if stop {
						break
					}
				}
			}
		}
	}
	// B4. sizes at which gnark's limb-width optimiser (std/rangecheck, cost formulas re-implemented here from
	// gnark's source) changes its choice or has two equally cheap widths, +-1: the places where a copy of
	// that optimiser inside the chip can disagree with gnark's.
	{
		w := []uint64{32, 16, 64, 48}[rec.Seed()%4]
		ws := []uint64{w}
		if rec.Thorough() {
			ws = []uint64{16, 32, 48, 64}
		}
		for _, w := range ws {
			for pk := 0; pk < 3; pk++ {
				for bi, backend := range []string{"r1cs", "scs"} {
					for _, n := range gnarkWidthCriticalSizes(int(w), pk, bi == 1, 72000) {
						item++
						if !rec.Mine(item) {
							continue
						}
						a := c06Pop{Backend: backend, Width: w, PadN: n, PadFull: pk == 2, Pad32: pk == 1}
						for _, v := range []*big.Int{new(big.Int).Sub(pow2(uint(w)), big.NewInt(1)), pow2(uint(w)), pow2(uint(w) + 1), pow2(uint(w) + 7)} {
							a.V = v.String()
							k, d, st := c06PopRun(a)
							if st == "refused" {
								popRefused++
							} else {
								popCompiled++
							}
							r.Case("population-critical-size/"+a.Backend+"/"+st, st != "refused", fmt.Sprint(a), func() any { return a })
							if k != "" {
								cfg, _ := json.Marshal(a)
								r.Fail(t, "C06/"+k, c06Replay{Backend: "population", Config: string(cfg), Width: a.Width, V: a.V}, "%s", d)
							}
							if st == "refused" {
								break
							}
						}
					}
				}
			}
		}
	}
	r.AddExtra("population_cases_refused_at_compile", popRefused)
	r.AddExtra("population_cases_compiled", popCompiled)

	// C. gnark's own test engine (commit-capable; forced bits and padded commit)
	if rec.Mine(3) {
		rec.SetRapid("gnark-engine", tierN(12, 120))
		rapid.Check(t, func(rt *rapid.T) {
			var width uint64
			if rapid.Bool().Draw(rt, "w") {
				width = rapid.SampledFrom([]uint64{16, 32, 64, 144}).Draw(rt, "width")
			}
			mech := cs.MechForcedBits
			pad := 0
			if rapid.IntRange(0, 3).Draw(rt, "commit") == 0 {
				mech, pad = cs.MechCommit, c06Pad
			}
			v := genRCValue(width).Draw(rt, "v")
			r.Case("gnark-engine/"+mech.String(), nearBoundary(v, width), fmt.Sprint(mech, width, v), func() any {
				return map[string]any{"backend": "gnark test engine", "mechanism": mech.String(), "width": width, "v": v.String()}
			})
			err := cs.GnarkEngine(mech, []*big.Int{v, big.NewInt(0)}, nil, c06Gadget(width, pad))
			if (err == nil) != inRange(v, width) {
				r.Fail(rt, fmt.Sprintf("C06/exact/gnark-engine/%s", mech), c06Replay{Backend: "gnark-engine", Mech: int(mech), Width: width, V: v.String()}, "gnark engine %s width %d value %s: err=%v in range=%v", mech, width, v, err, inRange(v, width))
			}
		})
	}
	r.Done()
}

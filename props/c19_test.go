package props

import (
	"bytes"
	"encoding/json"
	"fmt"
	"math/big"
	"os"
	"reflect"
	"strings"
	"testing"

	"verif/eng"

	"github.com/consensys/gnark-crypto/ecc"
	"github.com/consensys/gnark/frontend"
	"github.com/wormhole-foundation/example-near-light-client/types"
	"github.com/wormhole-foundation/example-near-light-client/variables"
	"github.com/wormhole-foundation/example-near-light-client/verifier"
	"pgregory.net/rapid"
)

// C19 Proof and circuit-data deserialization is faithful and position-preserving.
//
// A model generates a document together with the list (name, value) of every number in it, in
// the order and under the names gnark's schema walk gives the corresponding circuit leaves.

type leafKV struct {
	Name string
	Val  *big.Int // expected residue mod r (64-bit values exactly)
}

type docModel struct {
	Proof  map[string]any
	VData  map[string]any
	Leaves []leafKV // expected leaves of VerifierCircuit{PublicInputs, Proof, VerifierData} in schema order
	PIs    []uint64
	// numeric positions for single-value edits: path into Proof/VData documents
	Sites []docSite
}

type docSite struct {
	Doc   string // "proof" | "vdata"
	Path  []any  // keys / indices
	IsStr bool   // hash string (decimal) vs 64-bit number
	Leaf  int    // index into Leaves
}

func genU64() *rapid.Generator[uint64] {
	return rapid.Custom(func(t *rapid.T) uint64 {
		switch rapid.IntRange(0, 4).Draw(t, "k") {
		case 0:
			return rapid.SampledFrom([]uint64{0, 1, 1<<32 - 1, 1 << 32, 1 << 63, 0xffffffff00000000, 0xffffffff00000001, ^uint64(0)}).Draw(t, "edge")
		default:
			return rapid.Uint64().Draw(t, "u")
		}
	})
}

func genHashStr() *rapid.Generator[*big.Int] {
	return rapid.Custom(func(t *rapid.T) *big.Int {
		switch rapid.IntRange(0, 5).Draw(t, "k") {
		case 0:
			return rapid.SampledFrom([]*big.Int{big.NewInt(0), big.NewInt(1), new(big.Int).Sub(bigR, big.NewInt(1)), bigR, new(big.Int).Add(bigR, big.NewInt(5)), pow2(256)}).Draw(t, "edge")
		case 1:
			return genBigBelow(pow2(260)).Draw(t, "big") // above r: stored as its residue
		default:
			return genBigBelow(bigR).Draw(t, "h")
		}
	})
}

// genDoc draws a random-shape proof document and verifier data with their expected leaves.
func genDoc(t *rapid.T) *docModel {
	m := &docModel{}
	var proofLeaves, piLeaves, vdLeaves []leafKV
	var proofSites, vdSites []docSite
	forceZero := false
	num := func(name string, path []any, into *[]leafKV, sites *[]docSite, doc string) json.Number {
		v := genU64().Draw(t, "n")
		if forceZero {
			v = 0
		}
		*into = append(*into, leafKV{name, new(big.Int).SetUint64(v)})
		*sites = append(*sites, docSite{Doc: doc, Path: append([]any{}, path...), Leaf: len(*into) - 1})
		return json.Number(fmt.Sprint(v))
	}
	str := func(name string, path []any, into *[]leafKV, sites *[]docSite, doc string) string {
		v := genHashStr().Draw(t, "h")
		*into = append(*into, leafKV{name, new(big.Int).Mod(v, bigR)})
		*sites = append(*sites, docSite{Doc: doc, Path: append([]any{}, path...), IsStr: true, Leaf: len(*into) - 1})
		return v.String()
	}
	n := func(lo, hi int, name string) int { return rapid.IntRange(lo, hi).Draw(t, name) }
	capList := func(name string, path []any, k int, into *[]leafKV, sites *[]docSite, doc string) []any {
		l := make([]any, k)
		for i := range l {
			l[i] = str(fmt.Sprintf("%s_%d", name, i), append(path, i), into, sites, doc)
		}
		return l
	}
	extList := func(name string, path []any, k int) []any {
		l := make([]any, k)
		// one list in four ends in 1..3 all-zero elements (and one in eight starts with some): zeros are numbers too
		zeroTail, zeroHead := 0, 0
		if k > 0 && rapid.IntRange(0, 3).Draw(t, "zero_tail") == 0 {
			zeroTail = rapid.IntRange(1, 3).Draw(t, "tail")
		}
		if k > 0 && rapid.IntRange(0, 7).Draw(t, "zero_head") == 0 {
			zeroHead = rapid.IntRange(1, 2).Draw(t, "head")
		}
		defer func() { forceZero = false }()
		for i := range l {
			forceZero = i >= k-zeroTail || i < zeroHead
			a := num(fmt.Sprintf("%s_%d_0_Limb", name, i), append(path, i, 0), &proofLeaves, &proofSites, "proof")
			b := num(fmt.Sprintf("%s_%d_1_Limb", name, i), append(path, i, 1), &proofLeaves, &proofSites, "proof")
			l[i] = []any{a, b}
		}
		return l
	}
	capSize := n(0, 17, "cap_size")
	proof := map[string]any{}
	pp := []any{"proof"}
	proof["wires_cap"] = capList("Proof_WiresCap", append(pp, "wires_cap"), capSize, &proofLeaves, &proofSites, "proof")
	proof["plonk_zs_partial_products_cap"] = capList("Proof_PlonkZsPartialProductsCap", append(pp, "plonk_zs_partial_products_cap"), n(0, 17, "cap2"), &proofLeaves, &proofSites, "proof")
	proof["quotient_polys_cap"] = capList("Proof_QuotientPolysCap", append(pp, "quotient_polys_cap"), n(0, 17, "cap3"), &proofLeaves, &proofSites, "proof")
	op := map[string]any{}
	for _, f := range [][2]string{{"constants", "Constants"}, {"plonk_sigmas", "PlonkSigmas"}, {"wires", "Wires"}, {"plonk_zs", "PlonkZs"}, {"plonk_zs_next", "PlonkZsNext"}, {"partial_products", "PartialProducts"}, {"quotient_polys", "QuotientPolys"}} {
		op[f[0]] = extList("Proof_Openings_"+f[1], append(pp, "openings", f[0]), n(0, 9, f[0]))
	}
	proof["openings"] = op
	fp := map[string]any{}
	ncaps := n(0, 3, "commit_caps")
	cc := make([]any, ncaps)
	for i := range cc {
		cc[i] = capList(fmt.Sprintf("Proof_OpeningProof_CommitPhaseMerkleCaps_%d", i), append(pp, "opening_proof", "commit_phase_merkle_caps", i), n(0, 17, "ccsize"), &proofLeaves, &proofSites, "proof")
	}
	fp["commit_phase_merkle_caps"] = cc
	nr := n(0, 4, "rounds")
	rounds := make([]any, nr)
	for r := range rounds {
		base := fmt.Sprintf("Proof_OpeningProof_QueryRoundProofs_%d", r)
		rpath := append(pp, "opening_proof", "query_round_proofs", r)
		ne := n(0, 5, "eval_proofs")
		eps := make([]any, ne)
		for e := range eps {
			w := n(0, 12, "leaf_width")
			leaf := make([]any, w)
			for i := range leaf {
				leaf[i] = num(fmt.Sprintf("%s_InitialTreesProof_EvalsProofs_%d_Elements_%d_Limb", base, e, i), append(rpath, "initial_trees_proof", "evals_proofs", e, 0, i), &proofLeaves, &proofSites, "proof")
			}
			sib := capList(fmt.Sprintf("%s_InitialTreesProof_EvalsProofs_%d_MerkleProof_Siblings", base, e), append(rpath, "initial_trees_proof", "evals_proofs", e, 1, "siblings"), n(0, 13, "siblings"), &proofLeaves, &proofSites, "proof")
			eps[e] = []any{leaf, map[string]any{"siblings": sib}}
		}
		ns := n(0, 3, "steps")
		steps := make([]any, ns)
		for s := range steps {
			ev := extList(fmt.Sprintf("%s_Steps_%d_Evals", base, s), append(rpath, "steps", s, "evals"), n(0, 17, "evals"))
			sib := capList(fmt.Sprintf("%s_Steps_%d_MerkleProof_Siblings", base, s), append(rpath, "steps", s, "merkle_proof", "siblings"), n(0, 9, "step_siblings"), &proofLeaves, &proofSites, "proof")
			steps[s] = map[string]any{"evals": ev, "merkle_proof": map[string]any{"siblings": sib}}
		}
		rounds[r] = map[string]any{"initial_trees_proof": map[string]any{"evals_proofs": eps}, "steps": steps}
	}
	fp["query_round_proofs"] = rounds
	fp["final_poly"] = map[string]any{"coeffs": extList("Proof_OpeningProof_FinalPoly_Coeffs", append(pp, "opening_proof", "final_poly", "coeffs"), n(0, 9, "final_poly"))}
	fp["pow_witness"] = num("Proof_OpeningProof_PowWitness_Limb", append(pp, "opening_proof", "pow_witness"), &proofLeaves, &proofSites, "proof")
	proof["opening_proof"] = fp
	npi := n(0, 20, "public_inputs")
	pis := make([]any, npi)
	for i := range pis {
		pis[i] = num(fmt.Sprintf("PublicInputs_%d_Limb", i), []any{"public_inputs", i}, &piLeaves, &proofSites, "proof")
		m.PIs = append(m.PIs, piLeaves[i].Val.Uint64())
	}
	// sites of public inputs index into piLeaves: fix up after concatenation below
	m.Proof = map[string]any{"proof": proof, "public_inputs": pis}
	vd := map[string]any{}
	vd["constants_sigmas_cap"] = capList("VerifierData_ConstantSigmasCap", []any{"constants_sigmas_cap"}, n(0, 17, "vcap"), &vdLeaves, &vdSites, "vdata")
	vd["circuit_digest"] = str("VerifierData_CircuitDigest", []any{"circuit_digest"}, &vdLeaves, &vdSites, "vdata")
	m.VData = vd
	// schema order of VerifierCircuit: PublicInputs, Proof, VerifierData
	m.Leaves = append(append(append([]leafKV{}, piLeaves...), proofLeaves...), vdLeaves...)
	for _, s := range proofSites {
		if len(s.Path) > 0 && s.Path[0] == "public_inputs" {
			// Leaf already indexes piLeaves
		} else {
			s.Leaf += len(piLeaves)
		}
		m.Sites = append(m.Sites, s)
	}
	for _, s := range vdSites {
		s.Leaf += len(piLeaves) + len(proofLeaves)
		m.Sites = append(m.Sites, s)
	}
	return m
}

// readDocs runs the repository's readers; refusedAt != "" if any stage refused.
func readDocs(proofJSON, vdJSON []byte) (leaves []leafKV, pis []uint64, refusedAt, msg string) {
	stage := "read"
	defer func() {
		if r := recover(); r != nil {
			refusedAt, msg = stage, fmt.Sprint(r)
		}
	}()
	raw := types.ReadProofWithPublicInputsFromRequest(proofJSON)
	vraw := types.ReadVerifierOnlyCircuitDataFromRequest(vdJSON)
	stage = "deserialize"
	pw, p := variables.DeserializeProofWithPublicInputs(raw)
	vd := variables.DeserializeVerifierOnlyCircuitData(vraw)
	c := &verifier.VerifierCircuit{Proof: pw.Proof, PublicInputs: pw.PublicInputs, VerifierData: vd}
	stage = "witness"
	if _, err := frontend.NewWitness(c, ecc.BN254.ScalarField()); err != nil {
		return nil, nil, "witness", err.Error()
	}
	stage = "walk"
	vals, names, err := eng.Leaves(c)
	if err != nil {
		return nil, nil, "walk", err.Error()
	}
	for i := range vals {
		leaves = append(leaves, leafKV{names[i], eng.ValueOf(vals[i].Interface())})
	}
	return leaves, p, "", ""
}

type c19Doc struct {
	Proof json.RawMessage `json:"proof_doc"`
	VData json.RawMessage `json:"verifier_data_doc"`
	Want  []string        `json:"expected_leaves"` // "name=value"
	PIs   []uint64        `json:"public_inputs"`
}

func kvStrings(l []leafKV) []string {
	o := make([]string, len(l))
	for i, x := range l {
		o[i] = x.Name + "=" + x.Val.String()
	}
	return o
}

func c19Faithful(a c19Doc) caseResult {
	got, pis, refused, msg := readDocs(a.Proof, a.VData)
	if refused != "" {
		return caseResult{Viol: "wellformed-refused", Desc: fmt.Sprintf("well-formed document refused at %s: %s", refused, truncate(msg, 200))}
	}
	g := kvStrings(got)
	if len(g) != len(a.Want) {
		return caseResult{Viol: "leaf-count", Desc: fmt.Sprintf("document has %d numbers, assignment has %d leaves", len(a.Want), len(g))}
	}
	for i := range g {
		if g[i] != a.Want[i] {
			return caseResult{Viol: "leaf-mismatch", Desc: fmt.Sprintf("leaf %d: assignment has %s, document says %s", i, g[i], a.Want[i])}
		}
	}
	if !reflect.DeepEqual(pis, a.PIs) && !(len(pis) == 0 && len(a.PIs) == 0) {
		return caseResult{Viol: "public-inputs", Desc: fmt.Sprintf("returned public inputs %v, document has %v", pis, a.PIs)}
	}
	return caseResult{Trivial: len(g) < 8, Info: map[string]any{"leaves": len(g), "proof_bytes": len(a.Proof)}}
}

// Histories: several documents are read (through the byte readers or the path readers) before any
// of them is turned into an assignment, as a server that parses requests first and proves later
// would do.  Every assignment must still carry exactly the numbers of its own document.
type c19Hist struct {
	Docs    []c19Doc `json:"documents"`
	ViaPath []bool   `json:"read_from_file"`
	Order   []int    `json:"deserialize_order"`
}

func c19HistRun(a c19Hist) caseResult {
	type rawPair struct {
		p types.ProofWithPublicInputsRaw
		v types.VerifierOnlyCircuitDataRaw
	}
	raws := make([]rawPair, len(a.Docs))
	var histProofPath, histVDataPath string
	defer func() {
		for _, n := range []string{histProofPath, histVDataPath} {
			if n != "" {
				os.Remove(n)
			}
		}
	}()
	for i, d := range a.Docs {
		var refused string
		func() {
			defer func() {
				if r := recover(); r != nil {
					refused = fmt.Sprint(r)
				}
			}()
			if a.ViaPath[i] {
				// one path pair per history: a later document overwrites the file an earlier one was read from
				write := func(name *string, b []byte) string {
					if *name == "" {
						f, _ := os.CreateTemp(os.Getenv("VERIF_OUT"), "c19-*.json")
						*name = f.Name()
						f.Close()
					}
					os.WriteFile(*name, b, 0o644)
					return *name
				}
				pf, vf := write(&histProofPath, d.Proof), write(&histVDataPath, d.VData)
				raws[i] = rawPair{types.ReadProofWithPublicInputs(pf), types.ReadVerifierOnlyCircuitData(vf)}
			} else {
				raws[i] = rawPair{types.ReadProofWithPublicInputsFromRequest(d.Proof), types.ReadVerifierOnlyCircuitDataFromRequest(d.VData)}
			}
		}()
		if refused != "" {
			return caseResult{Viol: "history/wellformed-refused", Desc: fmt.Sprintf("well-formed document %d of %d refused at read: %s", i, len(a.Docs), truncate(refused, 200))}
		}
	}
	for _, i := range a.Order {
		var got []string
		var pis []uint64
		var refused string
		func() {
			defer func() {
				if r := recover(); r != nil {
					refused = fmt.Sprint(r)
				}
			}()
			pw, p := variables.DeserializeProofWithPublicInputs(raws[i].p)
			vd := variables.DeserializeVerifierOnlyCircuitData(raws[i].v)
			c := &verifier.VerifierCircuit{Proof: pw.Proof, PublicInputs: pw.PublicInputs, VerifierData: vd}
			vals, names, err := eng.Leaves(c)
			if err != nil {
				panic(err)
			}
			for j := range vals {
				got = append(got, names[j]+"="+eng.ValueOf(vals[j].Interface()).String())
			}
			pis = p
		}()
		if refused != "" {
			return caseResult{Viol: "history/wellformed-refused", Desc: fmt.Sprintf("well-formed document %d refused at deserialisation: %s", i, truncate(refused, 200))}
		}
		want := a.Docs[i].Want
		if len(got) != len(want) {
			return caseResult{Viol: "history/leaf-count", Desc: fmt.Sprintf("%d documents read (%v from files) before deserialising: document %d has %d numbers, its assignment has %d leaves", len(a.Docs), a.ViaPath, i, len(want), len(got))}
		}
		for j := range got {
			if got[j] != want[j] {
				return caseResult{Viol: "history/leaf-mismatch", Desc: fmt.Sprintf("%d documents read (%v from files) before deserialising: assignment of document %d has %s, the document says %s", len(a.Docs), a.ViaPath, i, got[j], want[j])}
			}
		}
		if !reflect.DeepEqual(pis, a.Docs[i].PIs) && !(len(pis) == 0 && len(a.Docs[i].PIs) == 0) {
			return caseResult{Viol: "history/public-inputs", Desc: fmt.Sprintf("document %d: returned public inputs %v, document has %v", i, pis, a.Docs[i].PIs)}
		}
	}
	return caseResult{Info: map[string]any{"documents": len(a.Docs)}}
}

func setAtPath(doc any, path []any, v any) {
	cur := doc
	for _, p := range path[:len(path)-1] {
		switch k := p.(type) {
		case string:
			cur = cur.(map[string]any)[k]
		case int:
			cur = cur.([]any)[k]
		}
	}
	switch k := path[len(path)-1].(type) {
	case string:
		cur.(map[string]any)[k] = v
	case int:
		cur.([]any)[k] = v
	}
}

type c19Corrupt struct {
	Proof json.RawMessage `json:"proof_doc"`
	VData json.RawMessage `json:"verifier_data_doc"`
	What  string          `json:"what"`
}

func c19CorruptRun(a c19Corrupt) caseResult {
	_, _, refused, msg := readDocs(a.Proof, a.VData)
	if refused == "" {
		return caseResult{Viol: "corrupt-accepted/" + a.What, Desc: fmt.Sprintf("document with a malformed value (%s) was turned into a witness without any error", a.What)}
	}
	return caseResult{Info: map[string]any{"what": a.What, "refused_at": refused, "msg": truncate(msg, 80)}}
}

// common circuit data: every configuration number must arrive unchanged
type c19Common struct {
	Doc json.RawMessage `json:"doc"`
	// documents written to the same path and read again afterwards (a regenerated common_circuit_data.json)
	Then []json.RawMessage `json:"then_same_path,omitempty"`
}

func c19CommonRun(a c19Common) caseResult {
	f, _ := os.CreateTemp(os.Getenv("VERIF_OUT"), "cd-*.json")
	f.Close()
	defer os.Remove(f.Name())
	res := c19CommonOne(f.Name(), a.Doc, "")
	for i, d := range a.Then {
		if res.Viol != "" {
			break
		}
		res = c19CommonOne(f.Name(), d, fmt.Sprintf("document %d written to the path of the previous one and read again: ", i+2))
	}
	return res
}

func c19CommonOne(path string, docBytes json.RawMessage, ctx string) caseResult {
	a := struct{ Doc json.RawMessage }{docBytes}
	if err := os.WriteFile(path, a.Doc, 0o644); err != nil {
		return caseResult{Viol: "infra/common-write", Desc: err.Error()}
	}
	f, _ := os.Open(path)
	f.Close()
	var cd types.CommonCircuitData
	refused := ""
	func() {
		defer func() {
			if r := recover(); r != nil {
				refused = fmt.Sprint(r)
			}
		}()
		cd = types.ReadCommonCircuitData(f.Name())
	}()
	if refused != "" {
		return caseResult{Viol: "common-refused", Desc: ctx + "well-formed common circuit data refused: " + truncate(refused, 200)}
	}
	var raw types.CommonCircuitDataRaw
	if err := json.Unmarshal(a.Doc, &raw); err != nil {
		return caseResult{Viol: "infra/common-doc", Desc: err.Error()}
	}
	type chk struct {
		name      string
		got, want any
	}
	var starts, ends, sel []uint64
	si := reflect.ValueOf(cd.SelectorsInfo)
	for i := 0; i < si.Field(0).Len(); i++ {
		sel = append(sel, si.Field(0).Index(i).Uint())
	}
	for i := 0; i < si.Field(1).Len(); i++ {
		starts = append(starts, si.Field(1).Index(i).Field(0).Uint())
		ends = append(ends, si.Field(1).Index(i).Field(1).Uint())
	}
	var wstarts, wends []uint64
	for _, g := range raw.SelectorsInfo.Groups {
		wstarts = append(wstarts, g.Start)
		wends = append(wends, g.End)
	}
	checks := []chk{
		{"config.num_wires", cd.Config.NumWires, raw.Config.NumWires}, {"config.num_routed_wires", cd.Config.NumRoutedWires, raw.Config.NumRoutedWires},
		{"config.num_constants", cd.Config.NumConstants, raw.Config.NumConstants}, {"config.num_challenges", cd.Config.NumChallenges, raw.Config.NumChallenges},
		{"config.security_bits", cd.Config.SecurityBits, raw.Config.SecurityBits}, {"config.max_quotient_degree_factor", cd.Config.MaxQuotientDegreeFactor, raw.Config.MaxQuotientDegreeFactor},
		{"config.fri_config.rate_bits", cd.Config.FriConfig.RateBits, raw.Config.FriConfig.RateBits}, {"config.fri_config.cap_height", cd.Config.FriConfig.CapHeight, raw.Config.FriConfig.CapHeight},
		{"config.fri_config.proof_of_work_bits", cd.Config.FriConfig.ProofOfWorkBits, raw.Config.FriConfig.ProofOfWorkBits}, {"config.fri_config.num_query_rounds", cd.Config.FriConfig.NumQueryRounds, raw.Config.FriConfig.NumQueryRounds},
		{"fri_params.config.rate_bits", cd.FriParams.Config.RateBits, raw.FriParams.Config.RateBits}, {"fri_params.config.cap_height", cd.FriParams.Config.CapHeight, raw.FriParams.Config.CapHeight},
		{"fri_params.config.proof_of_work_bits", cd.FriParams.Config.ProofOfWorkBits, raw.FriParams.Config.ProofOfWorkBits}, {"fri_params.config.num_query_rounds", cd.FriParams.Config.NumQueryRounds, raw.FriParams.Config.NumQueryRounds},
		{"fri_params.degree_bits", cd.FriParams.DegreeBits, raw.FriParams.DegreeBits}, {"degree_bits(copy)", cd.DegreeBits, raw.FriParams.DegreeBits},
		{"fri_params.reduction_arity_bits", cd.FriParams.ReductionArityBits, raw.FriParams.ReductionArityBits},
		{"gates", cd.GateIds, raw.Gates}, {"selector_indices", sel, raw.SelectorsInfo.SelectorIndices}, {"group_starts", starts, wstarts}, {"group_ends", ends, wends},
		{"quotient_degree_factor", cd.QuotientDegreeFactor, raw.QuotientDegreeFactor}, {"num_gate_constraints", cd.NumGateConstraints, raw.NumGateConstraints},
		{"num_constants", cd.NumConstants, raw.NumConstants}, {"num_public_inputs", cd.NumPublicInputs, raw.NumPublicInputs}, {"k_is", cd.KIs, raw.KIs}, {"num_partial_products", cd.NumPartialProducts, raw.NumPartialProducts},
	}
	for _, c := range checks {
		if fmt.Sprint(c.got) != fmt.Sprint(c.want) {
			return caseResult{Viol: "common/" + c.name, Desc: ctx + fmt.Sprintf("common data field %s: configuration has %v, document says %v", c.name, c.got, c.want)}
		}
	}
	return caseResult{Info: map[string]any{"fields": len(checks)}}
}

func TestC19(t *testing.T) {
	s := newSuite("C19")
	r := s.r
	defer r.Flush()
	r.Rule("model-generated proof / verifier-data documents with random shapes (cap sizes 0..17, 0..4 query rounds, 0..5 eval proofs of leaf width 0..12, 0..3 steps with 0..17 evaluations, sibling counts 0..13, opening lists 0..9, 0..20 public inputs) and values (64-bit numbers incl. >= p and 2^64-1; lists ending or starting in all-zero elements; decimal hash strings incl. r-1, r, values up to 2^260) are read with the repository's readers and compared leaf by leaf (name and value, in schema order) with the model; single-value edits must change exactly that leaf; single-value corruptions from the listed classes (non-numeric / non-decimal string, negative, fractional, >= 2^64 number, scalar where a list is expected, number where a string is expected) must be refused at read, deserialise or witness time; random common-circuit-data documents must arrive field by field; histories: 2..4 documents are read (byte readers or path readers) before any is deserialised, then deserialised in a drawn order, each assignment must carry exactly its own document's numbers.  Documents of one history that are read from files share one path pair (a later document overwrites the file an earlier one was read from), and a third of the common-data cases write 1..2 further documents to the path just read and read it again: every read must reflect the file as it is then.  Non-trivial = document with at least 8 numbers; distinct = document.")
	r.Assume("signed decimal strings and JSON null are outside the listed corruption classes and are not generated")
	s.on("faithful", func(b json.RawMessage) caseResult { return c19Faithful(unmarshal[c19Doc](b)) })
	s.on("corrupt", func(b json.RawMessage) caseResult { return c19CorruptRun(unmarshal[c19Corrupt](b)) })
	s.on("common", func(b json.RawMessage) caseResult { return c19CommonRun(unmarshal[c19Common](b)) })
	s.on("history", func(b json.RawMessage) caseResult { return c19HistRun(unmarshal[c19Hist](b)) })
	if s.replay(t) {
		return
	}
	marshal := func(v any) json.RawMessage { b, _ := json.Marshal(v); return b }
	rapidCheck(t, "faithful", tierN(4500, 40000), func(rt *rapid.T) {
		m := genDoc(rt)
		s.exec(rt, "faithful", c19Doc{marshal(m.Proof), marshal(m.VData), kvStrings(m.Leaves), m.PIs}, "faithful/random-shape")
		if len(m.Sites) == 0 {
			return
		}
		// differential: change one number, exactly that leaf must change
		site := m.Sites[rapid.IntRange(0, len(m.Sites)-1).Draw(rt, "site")]
		want := append([]leafKV{}, m.Leaves...)
		var nv any
		if site.IsStr {
			x := genHashStr().Draw(rt, "newhash")
			want[site.Leaf] = leafKV{want[site.Leaf].Name, new(big.Int).Mod(x, bigR)}
			nv = x.String()
		} else {
			x := genU64().Draw(rt, "newval")
			want[site.Leaf] = leafKV{want[site.Leaf].Name, new(big.Int).SetUint64(x)}
			nv = json.Number(fmt.Sprint(x))
		}
		doc := map[string]any{"proof": m.Proof, "vdata": m.VData}[site.Doc]
		setAtPath(doc, site.Path, nv)
		pis := append([]uint64{}, m.PIs...)
		if site.Path[0] == "public_inputs" {
			pis[site.Path[1].(int)] = want[site.Leaf].Val.Uint64()
		}
		s.exec(rt, "faithful", c19Doc{marshal(m.Proof), marshal(m.VData), kvStrings(want), pis}, "faithful/one-value-edited")
	})
	rapidCheck(t, "history", tierN(1200, 10000), func(rt *rapid.T) {
		n := rapid.IntRange(2, 4).Draw(rt, "documents")
		h := c19Hist{}
		var first *docModel
		for i := 0; i < n; i++ {
			if i > 0 && len(first.Sites) > 0 && rapid.IntRange(0, 2).Draw(rt, "same-shape") == 0 {
				// same shape as the first document, one number different (decoded copy of the first)
				site := first.Sites[rapid.IntRange(0, len(first.Sites)-1).Draw(rt, "site")]
				want := append([]leafKV{}, first.Leaves...)
				var nv any
				if site.IsStr {
					x := genHashStr().Draw(rt, "newhash")
					want[site.Leaf] = leafKV{want[site.Leaf].Name, new(big.Int).Mod(x, bigR)}
					nv = x.String()
				} else {
					x := genU64().Draw(rt, "newval")
					want[site.Leaf] = leafKV{want[site.Leaf].Name, new(big.Int).SetUint64(x)}
					nv = json.Number(fmt.Sprint(x))
				}
				decode := func(v any) any {
					var o any
					d := json.NewDecoder(bytes.NewReader(marshal(v)))
					d.UseNumber()
					if err := d.Decode(&o); err != nil {
						panic(err)
					}
					return o
				}
				pd, vd := decode(first.Proof), decode(first.VData)
				setAtPath(map[string]any{"proof": pd, "vdata": vd}[site.Doc], site.Path, nv)
				pis := append([]uint64{}, first.PIs...)
				if site.Path[0] == "public_inputs" {
					pis[site.Path[1].(int)] = want[site.Leaf].Val.Uint64()
				}
				h.Docs = append(h.Docs, c19Doc{marshal(pd), marshal(vd), kvStrings(want), pis})
			} else {
				m := genDoc(rt)
				if i == 0 {
					first = m
				}
				h.Docs = append(h.Docs, c19Doc{marshal(m.Proof), marshal(m.VData), kvStrings(m.Leaves), m.PIs})
			}
			h.ViaPath = append(h.ViaPath, rapid.IntRange(0, 3).Draw(rt, "file") == 0)
		}
		ord := make([]int, n)
		for i := range ord {
			ord[i] = i
		}
		h.Order = rapid.Permutation(ord).Draw(rt, "order")
		s.exec(rt, "history", h, fmt.Sprintf("history/%d-documents", n))
	})
	rapidCheck(t, "corrupt", tierN(4500, 40000), func(rt *rapid.T) {
		m := genDoc(rt)
		if len(m.Sites) == 0 {
			return
		}
		site := m.Sites[rapid.IntRange(0, len(m.Sites)-1).Draw(rt, "site")]
		var nv any
		var what string
		if site.IsStr {
			what = rapid.SampledFrom([]string{"non-numeric string", "hex string", "empty string", "fractional string", "digits with letter", "number instead of string", "list instead of string"}).Draw(rt, "class")
			switch what {
			case "non-numeric string":
				nv = rapid.SampledFrom([]string{"abc", "NaN", "twelve", " "}).Draw(rt, "v")
			case "hex string":
				nv = "0x1f"
			case "empty string":
				nv = ""
			case "fractional string":
				nv = "1.5"
			case "digits with letter":
				nv = fmt.Sprintf("%da", rapid.IntRange(0, 999).Draw(rt, "d"))
			case "number instead of string":
				nv = json.Number("5")
			default:
				nv = []any{"1"}
			}
		} else {
			what = rapid.SampledFrom([]string{"string instead of number", "negative number", "fractional number", "number >= 2^64", "huge number", "list instead of number", "object instead of number"}).Draw(rt, "class")
			switch what {
			case "string instead of number":
				nv = rapid.SampledFrom([]string{"abc", "12", ""}).Draw(rt, "v")
			case "negative number":
				nv = json.Number(fmt.Sprintf("-%d", rapid.IntRange(1, 1000).Draw(rt, "d")))
			case "fractional number":
				nv = json.Number(rapid.SampledFrom([]string{"1.5", "0.1", "2e-1", "123456.75"}).Draw(rt, "v"))
			case "number >= 2^64":
				nv = json.Number(new(big.Int).Add(pow2(64), big.NewInt(int64(rapid.IntRange(0, 5).Draw(rt, "d")))).String())
			case "huge number":
				nv = json.Number(bigR.String())
			case "list instead of number":
				nv = []any{json.Number("1")}
			default:
				nv = map[string]any{"x": json.Number("1")}
			}
		}
		doc := map[string]any{"proof": m.Proof, "vdata": m.VData}[site.Doc]
		setAtPath(doc, site.Path, nv)
		where := "number"
		if site.IsStr {
			where = "hash"
		}
		s.exec(rt, "corrupt", c19Corrupt{marshal(m.Proof), marshal(m.VData), what + " at " + fmt.Sprint(site.Path[maxInt(0, len(site.Path)-2):])}, "corrupt/"+where+"/"+what)
	})
	// scalar where a list is expected (structural)
	rapidCheck(t, "corrupt-list", tierN(1200, 8000), func(rt *rapid.T) {
		m := genDoc(rt)
		paths := [][]any{{"proof", "wires_cap"}, {"proof", "openings", "wires"}, {"proof", "opening_proof", "query_round_proofs"}, {"proof", "opening_proof", "commit_phase_merkle_caps"}, {"proof", "opening_proof", "final_poly", "coeffs"}, {"public_inputs"}, {"proof", "openings", "constants"}}
		p := rapid.SampledFrom(paths).Draw(rt, "list")
		nv := rapid.SampledFrom([]any{json.Number("7"), "7", true}).Draw(rt, "scalar")
		setAtPath(m.Proof, p, nv)
		s.exec(rt, "corrupt", c19Corrupt{marshal(m.Proof), marshal(m.VData), fmt.Sprintf("scalar %v where list %v is expected", nv, p[len(p)-1])}, "corrupt/scalar-for-list")
	})
	rapidCheck(t, "common", tierN(1800, 15000), func(rt *rapid.T) {
		u := func() json.Number { return json.Number(fmt.Sprint(genU64().Draw(rt, "u"))) }
		ul := func(k int) []any {
			l := make([]any, k)
			for i := range l {
				l[i] = u()
			}
			return l
		}
		fc := func() map[string]any {
			return map[string]any{"rate_bits": u(), "cap_height": u(), "proof_of_work_bits": u(), "reduction_strategy": map[string]any{"ConstantArityBits": ul(2)}, "num_query_rounds": u()}
		}
		ng := rapid.IntRange(0, 6).Draw(rt, "gates")
		gs := make([]any, ng)
		for i := range gs {
			gs[i] = genGateSpec(rapid.SampledFrom(gateTypes).Draw(rt, "type")).Draw(rt, "gate").id()
		}
		ngr := rapid.IntRange(0, 4).Draw(rt, "groups")
		groups := make([]any, ngr)
		for i := range groups {
			groups[i] = map[string]any{"start": u(), "end": u()}
		}
		mk := func() map[string]any {
			return map[string]any{
				"config":     map[string]any{"num_wires": u(), "num_routed_wires": u(), "num_constants": u(), "use_base_arithmetic_gate": rapid.Bool().Draw(rt, "b"), "security_bits": u(), "num_challenges": u(), "zero_knowledge": rapid.Bool().Draw(rt, "zk"), "max_quotient_degree_factor": u(), "fri_config": fc()},
				"fri_params": map[string]any{"config": fc(), "hiding": false, "degree_bits": u(), "reduction_arity_bits": ul(rapid.IntRange(0, 4).Draw(rt, "arities"))},
				"gates":      gs, "selectors_info": map[string]any{"selector_indices": ul(ng), "groups": groups},
				"quotient_degree_factor": u(), "num_gate_constraints": u(), "num_constants": u(), "num_public_inputs": u(), "k_is": ul(rapid.IntRange(0, 90).Draw(rt, "kis")), "num_partial_products": u(),
				"num_lookup_polys": u(), "num_lookup_selectors": u(), "luts": []any{},
			}
		}
		c := c19Common{Doc: marshal(mk())}
		class := "common-data/random"
		if rapid.IntRange(0, 2).Draw(rt, "reread") == 0 {
			for i := rapid.IntRange(1, 2).Draw(rt, "followups"); i > 0; i-- {
				c.Then = append(c.Then, marshal(mk()))
			}
			class = "common-data/same-path-rewritten"
		}
		s.exec(rt, "common", c, class)
	})
	r.Done()
}

var _ = strings.Join

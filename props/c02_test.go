package props

import (
	"fmt"
	"github.com/wormhole-foundation/example-near-light-client/types"
	"github.com/wormhole-foundation/example-near-light-client/variables"
	"github.com/wormhole-foundation/example-near-light-client/verifier"
	"math/big"
	"runtime/debug"
	"strings"
	"testing"

	"verif/corp"
	"verif/cs"
	"verif/eng"
	"verif/gad"
	"verif/rec"
	"verif/ref"
	"verif/wv"

	"github.com/consensys/gnark-crypto/ecc"
	"github.com/consensys/gnark/frontend"
	"github.com/consensys/gnark/test"
	gl "github.com/wormhole-foundation/example-near-light-client/goldilocks"
)

// C02 Valid plonky2 proofs are accepted under every range-check configuration.
//
// Domain: corpus proof x query-round prefix k x engine flavour x wrapper.  Oracle: ACCEPT in
// every configuration; plus the bound monitor's "honest quotient always fits" obligation at
// every witnessed reduction of one monitored execution per inner circuit; plus a cross-check of
// the engine's ACCEPT against gnark's own test engine.

type c02Item struct {
	Base    string `json:"base"`
	K       int    `json:"k"`
	Mode    int    `json:"mode"`
	Force   bool   `json:"force"`
	Wrapper string `json:"wrapper"`           // "plain" | "fixed" | "gnark-engine" | "monitor"
	Backend string `json:"backend,omitempty"` // "" = evaluation engine; "r1cs" | "scs" = compiled with gnark's real builder and solved
}

func (it c02Item) key() string {
	k := fmt.Sprintf("%s/k=%d/%s/force=%v/%s", it.Base, it.K, eng.Mode(it.Mode), it.Force, it.Wrapper)
	if it.Backend != "" {
		k += "/compiled-" + it.Backend
	}
	return k
}

// c02Compiled compiles the whole wrapper with gnark's real builder for the given proof system and
// range-check mechanism and solves the honest witness.
func c02Compiled(it c02Item) (bool, string, map[string]any) {
	// a compiled whole circuit is several GB; give it back before the next item of this process starts
	defer debug.FreeOSMemory()
	in := wv.Load(it.Base, it.K)
	kind := cs.R1CS
	if it.Backend == "scs" {
		kind = cs.SCS
	}
	mech := map[eng.Mode]cs.Mech{eng.ModeCommit: cs.MechCommit, eng.ModePlain: cs.MechForcedBits, eng.ModeNative: cs.MechNative}[eng.Mode(it.Mode)]
	var tmpl, asg frontend.Circuit
	if it.Wrapper == "fixed" {
		tmpl, asg = in.FixedTemplate(), in.FixedAssignment()
	} else {
		tmpl, asg = in.PlainTemplate(), in.Circuit()
	}
	sys, err := cs.CompileCircuit(kind, mech, tmpl)
	if err != nil {
		return false, "compile refused: " + truncate(err.Error(), 300), nil
	}
	if err := sys.SolveCircuit(asg); err != nil {
		return false, "compiled system rejects the honest witness: " + truncate(err.Error(), 300), nil
	}
	return true, "", map[string]any{"constraints": sys.CCS.GetNbConstraints(), "mechanism": mech.String()}
}

// twoProofs: one VerifierChip verifying two proofs of the same inner circuit in one gnark circuit
// (what an aggregating circuit does); nothing may carry over from the first verification to the second.
type twoProofs struct {
	PI1, PI2 []gl.Variable
	P1, P2   variables.Proof
	VD1, VD2 variables.VerifierOnlyCircuitData
	CD       types.CommonCircuitData `gnark:"-"`
}

func (c *twoProofs) Define(api frontend.API) error {
	chip := verifier.NewVerifierChip(api, c.CD)
	chip.Verify(c.P1, c.PI1, c.VD1)
	chip.Verify(c.P2, c.PI2, c.VD2)
	return nil
}

func c02Run(it c02Item) (ok bool, desc string, extra map[string]any) {
	// building the circuit through the repository's constructors is part of what must work for an honest
	// instance: a constructor that panics (cannot read its inputs, ...) means the proof cannot be verified
	defer func() {
		if r := recover(); r != nil {
			ok, desc, extra = false, fmt.Sprintf("the circuit for this honest instance could not be built or run: panic: %v", r), nil
		}
	}()
	if it.Wrapper == "two-proofs-one-chip" {
		names := strings.Split(it.Base, "+")
		a, b := wv.Load(names[0], it.K), wv.Load(names[1], it.K)
		mk := func() *twoProofs {
			x, y := a.Circuit(), b.Circuit()
			return &twoProofs{PI1: x.PublicInputs, PI2: y.PublicInputs, P1: x.Proof, P2: y.Proof, VD1: x.VerifierData, VD2: y.VerifierData, CD: a.CD}
		}
		res := eng.Run(mk(), mk(), eng.Options{Mode: eng.Mode(it.Mode), ForceBitDecomp: it.Force})
		if res.Outcome == eng.Accept && res.TolerantHints > 0 {
			return false, "a shipped hint function failed on honest proofs", nil
		}
		return res.Outcome == eng.Accept, "second of two honest proofs verified through one VerifierChip: " + fmtRes(res), map[string]any{"hints": res.NHints}
	}
	if it.Backend != "" {
		return c02Compiled(it)
	}
	in := wv.Load(it.Base, it.K)
	opt := eng.Options{Mode: eng.Mode(it.Mode), ForceBitDecomp: it.Force}
	switch it.Wrapper {
	case "plain":
		res := eng.Run(in.Circuit(), in.Circuit(), opt)
		if res.Outcome == eng.Refused && in.Zero {
			// a description without query rounds is degenerate; refusing it outright would be legitimate
			return true, "", map[string]any{"refused": res.Msg}
		}
		if res.Outcome == eng.Accept && res.TolerantHints > 0 {
			return false, fmt.Sprintf("%d shipped hint function(s) failed on the honest proof", res.TolerantHints), nil
		}
		return res.Outcome == eng.Accept, fmtRes(res), map[string]any{"hints": res.NHints, "native_checks": res.NCheck, "commits": res.NCommit}
	case "fixed":
		res := eng.Run(in.FixedTemplate(), in.FixedAssignment(), opt)
		return res.Outcome == eng.Accept, fmtRes(res), map[string]any{"hints": res.NHints, "native_checks": res.NCheck, "commits": res.NCommit}
	case "gnark-engine":
		gl.VerifResetChips()
		var c, w frontend.Circuit = in.Circuit(), in.Circuit()
		err := test.IsSolved(c, w, ecc.BN254.ScalarField())
		gl.VerifResetChips()
		return err == nil, fmt.Sprint(err), nil
	case "process-history":
		// a long-lived process builds many circuits: the repository's process-wide chip cache is never
		// emptied between them (the harness normally empties it through a hook to bound memory)
		fn := func(api frontend.API, v []frontend.Variable) []frontend.Variable {
			gl.New(api).RangeCheck(gl.NewVariable(v[0]))
			for i := 0; i < c06Pad; i++ {
				gl.New(api).RangeCheckWithMaxBits(gl.NewVariable(v[1]), 16)
			}
			return nil
		}
		defer gl.VerifResetChips()
		for i := 0; i < it.K; i++ {
			o := opt
			o.KeepChipCache = true
			res, _ := gad.Run(o, []*big.Int{big.NewInt(int64(i)), big.NewInt(0)}, fn)
			if res.Outcome != eng.Accept {
				return false, fmt.Sprintf("circuit number %d built in this process (chip cache never emptied) is not accepted: %s", i+1, fmtRes(res)), nil
			}
		}
		return true, "", map[string]any{"circuits_in_one_process": it.K}
	case "monitor":
		mon := eng.NewMonitor()
		opt.Mon = mon
		res := eng.Run(in.Circuit(), in.Circuit(), opt)
		if res.Outcome != eng.Accept {
			return false, fmtRes(res), nil
		}
		mon.Finish()
		viol := []string{}
		nfit, ndyn := 0, 0
		var sample []map[string]any
		for _, o := range mon.Sorted() {
			if o.Kind != "fit" {
				continue
			}
			nfit++
			ndyn += o.Count
			if len(sample) < 4 {
				sample = append(sample, map[string]any{"site": o.Site, "dynamic_instances": o.Count, "operand_bound_bits": o.MaxL.BitLen(), "quotient_width_bits": o.Width})
			}
			if o.Viol > 0 {
				viol = append(viol, fmt.Sprintf("%s: operand bound 2^%d exceeds what a %d-bit quotient can express (%d instances)", o.Site, o.MaxL.BitLen(), o.Width, o.Viol))
			}
		}
		return len(viol) == 0, fmt.Sprint(viol), map[string]any{"fit_site_groups": nfit, "fit_dynamic_sites": ndyn, "fit_samples": sample}
	}
	panic("bad wrapper")
}

func TestC02(t *testing.T) {
	r := rec.New("C02")
	defer r.Flush()
	r.Rule("work items (corpus proof in {A1,A2 (16 public inputs), B1,B2,B3 (97)}, query-round prefix k in 1..28, configured proof-of-work difficulty as generated (16) or lowered (0, 1, 5, 8, 15; the transcript does not contain it, so the proof stays valid; with difficulty 0 and zero query rounds additionally every pow_witness value written into the proof document - 0, 2^63-1, 2^63, p-1, ... - gives a valid proof), engine flavour {native, plain(bit decomposition), commit, forced bit decomposition}, wrapper {VerifierCircuit, CircuitFixed (A instances), two proofs of one inner circuit verified one after the other through one VerifierChip, gnark test engine, bound-monitored run, 'process history' = 40 circuits built one after the other in one process without ever emptying the repository's chip cache}, backend {evaluation engine; whole circuit compiled with gnark's real R1CS / SCS builder for the commit, forced-bit and native mechanisms and solved}); every item is a complete honest verification and must be ACCEPTed; monitored runs additionally require, at every witnessed reduction/multiply-add (grouped by static call site), that the largest operand an honest prover can produce fits the quotient width the circuit enforces.  Every item is non-trivial; distinct = item tuple.")
	r.Assume("the five corpus proofs were produced by the real plonky2 prover (they are accepted by the independent reference verifier)", "prefix restriction of an honest proof is an honest proof of the adjusted configuration", "monitor completeness side assumes values passing the Goldilocks RangeCheck are < p (C06)")

	var rp c02Item
	if is, err := rec.LoadReplay(&rp); is {
		if err != nil {
			r.Infra(t, "replay: %v", err)
		}
		ok, d, _ := c02Run(rp)
		r.Case("replay", true, rp.key(), func() any { return rp })
		if !ok {
			r.Fail(t, "C02/"+rp.key(), rp, "honest instance not accepted: %s", d)
		}
		r.Done()
		return
	}

	var items []c02Item
	add := func(base string, k int, m eng.Mode, force bool, w string) {
		items = append(items, c02Item{Base: base, K: k, Mode: int(m), Force: force, Wrapper: w})
	}
	addC := func(base string, k int, m eng.Mode, w, backend string) {
		items = append(items, c02Item{Base: base, K: k, Mode: int(m), Wrapper: w, Backend: backend})
	}
	isA := func(b string) bool { return b[0] == 'A' }
	if !rec.Thorough() {
		// heavy items first so that they land on different shards
		addC("A1", 1, eng.ModeCommit, "fixed", "r1cs") // the deployed configuration: Groth16 R1CS, commit checker, 4-input wrapper
		addC("B1", 1, eng.ModeCommit, "plain", "scs")
		add("A1", 28, eng.ModeCommit, false, "plain")
		add("B1", 28, eng.ModeCommit, false, "plain")
		add("A1", 28, eng.ModePlain, false, "plain")
		add("B2", 28, eng.ModePlain, false, "plain")
		add("A2", 28, eng.ModePlain, false, "fixed")
		add("A1", 28, eng.ModeCommit, false, "fixed")
		add("A2", 28, eng.ModeNative, false, "gnark-engine")
		add("A1", 28, eng.ModeNative, false, "monitor")
		add("B3", 28, eng.ModeNative, false, "monitor")
		add("A1", 28, eng.ModeNative, true, "plain")
		for _, b := range corp.Names {
			add(b, 28, eng.ModeNative, false, "plain")
			if isA(b) {
				add(b, 28, eng.ModeNative, false, "fixed")
			}
		}
		for k := 1; k < 28; k++ {
			add([]string{"A1", "B1", "A2", "B2", "B3"}[k%5], k, eng.ModeNative, false, "plain")
		}
		add("A1", 1, eng.ModePlain, false, "fixed")
		add("A1", 40, eng.ModeCommit, false, "process-history")
		add("A1", 40, eng.ModeNative, false, "process-history")
		add("B1", 2, eng.ModeCommit, false, "plain")
		// configuration variants: the same honest proofs against a description with a lower proof-of-work difficulty
		add("A1+A2", 1, eng.ModeNative, false, "two-proofs-one-chip")
		add("B2+B1", 2, eng.ModeNative, false, "two-proofs-one-chip")
		add("A1@pow0", 3, eng.ModeNative, false, "plain")
		add("B1@pow5", 1, eng.ModeNative, false, "plain")
		add("A2@pow0", 1, eng.ModeNative, false, "fixed")
		// without grinding and without query rounds every pow_witness value of the proof document gives a valid
		// proof: the document-level value must survive deserialisation into the circuit
		for _, w := range []uint64{0, 1<<63 - 1, 1 << 63, ref.P - 1} {
			add(fmt.Sprintf("A1@k0@pow0@w%d", w), 1, eng.ModeNative, false, "plain")
		}
		add(fmt.Sprintf("B1@k0@pow0@w%d", uint64(1<<63+12345)), 1, eng.ModePlain, false, "plain")
	} else {
		for i, w := range []uint64{0, 1, 1<<32 - 1, 1 << 32, 1<<63 - 1, 1 << 63, 1<<63 + 1, ref.P - (1 << 32), ref.P - 2, ref.P - 1} {
			add(fmt.Sprintf("%s@k0@pow0@w%d", corp.Names[i%5], w), 1, eng.ModeNative, false, "plain")
		}
		add(fmt.Sprintf("A1@k0@pow0@w%d", uint64(1<<63+7)), 1, eng.ModeCommit, false, "plain")
		for _, pr := range []string{"A1+A2", "A2+A1", "B1+B2", "B3+B1", "B2+B3"} {
			add(pr, 1, eng.ModeNative, false, "two-proofs-one-chip")
			add(pr, 28, eng.ModeNative, false, "two-proofs-one-chip")
			add(pr, 2, eng.ModePlain, false, "two-proofs-one-chip")
		}
		for i, b := range corp.Names {
			for _, pw := range []int{0, 1, 8, 15} {
				add(fmt.Sprintf("%s@pow%d", b, pw), 1+(i+pw)%5, eng.ModeNative, false, "plain")
			}
			add(b+"@pow0", 2, eng.ModePlain, false, "plain")
			if isA(b) {
				add(b+"@pow0", 1, eng.ModeNative, false, "fixed")
			}
		}
		addC("A1@pow0", 1, eng.ModeCommit, "plain", "r1cs")
		// compiled whole verifier: full proofs under the deployed configuration, prefixes under the others
		// whole circuits compiled with gnark's builders cost ~1 M R1CS constraints (~2 GB) per query round on top of
		// ~2 M: at most three rounds, and (below) all compiled items on two shards, one after the other
		addC("A1", 2, eng.ModeCommit, "fixed", "r1cs")
		addC("B1", 2, eng.ModeCommit, "plain", "r1cs")
		addC("A2", 1, eng.ModeCommit, "plain", "scs")
		addC("B2", 1, eng.ModeNative, "plain", "scs")
		for i, b := range corp.Names {
			addC(b, 1+i%2*(i%3), eng.ModeCommit, "plain", []string{"scs", "r1cs"}[i%2]) // SCS (3x the constraints): one round only
			if isA(b) {
				addC(b, 1, eng.ModeCommit, "fixed", "scs")
			}
		}
		for _, b := range corp.Names {
			for _, k := range []int{28, 1, 2, 14, 27} {
				for _, m := range []eng.Mode{eng.ModeCommit, eng.ModePlain} {
					add(b, k, m, false, "plain")
					if isA(b) && (k == 28 || k == 1) {
						add(b, k, m, false, "fixed")
					}
				}
			}
			add(b, 28, eng.ModeNative, false, "gnark-engine")
			add(b, 60, []eng.Mode{eng.ModeCommit, eng.ModePlain, eng.ModeNative}[len(items)%3], false, "process-history")
			add(b, 28, eng.ModeNative, false, "monitor")
			add(b, 3, eng.ModeNative, false, "monitor") // (a plain-flavour monitor run keeps a DAG node per decomposed bit: tens of GB)
			add(b, 28, eng.ModeNative, true, "plain")
			add(b, 5, eng.ModeCommit, true, "plain")
		}
		for _, b := range corp.Names {
			for k := 1; k <= 28; k++ {
				add(b, k, eng.ModeNative, false, "plain")
				if isA(b) {
					add(b, k, eng.ModeNative, false, "fixed")
				}
			}
		}
	}
	agg := map[string]any{}
	nc, ne := 0, 0
	for _, it := range items {
		// compiled whole circuits need several GB each: in the thorough tier they all go to shards 0 and 1
		// (sequentially there); everything else is dealt round-robin to the remaining shards
		var take bool
		if rec.Thorough() && rec.NShards() > 4 {
			if it.Backend != "" {
				take = rec.ShardIdx() == nc%2
				nc++
			} else {
				take = rec.ShardIdx() == 2+ne%(rec.NShards()-2)
				ne++
			}
		} else {
			take = rec.Mine(nc + ne)
			nc++
		}
		if !take {
			continue
		}
		ok, d, extra := c02Run(it)
		class := fmt.Sprintf("%s/%s", it.Wrapper, eng.Mode(it.Mode))
		if it.Backend != "" {
			class = fmt.Sprintf("compiled-%s/%s/%s", it.Backend, it.Wrapper, eng.Mode(it.Mode))
		}
		if it.Force {
			class += "+forced"
		}
		it := it
		r.Case(class, true, it.key(), func() any { return map[string]any{"item": it, "outcome": "ACCEPT", "stats": extra} })
		if it.Wrapper == "monitor" && extra != nil {
			agg["monitor:"+it.key()] = extra
		}
		if !ok {
			r.Fail(t, "C02/"+it.key(), it, "honest instance %s not accepted: %s", it.key(), d)
		}
	}
	for k, v := range agg {
		r.Extra(k, v)
	}
	r.Extra("items_total", len(items))
	r.Done()
}

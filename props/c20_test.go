package props

import (
	"fmt"
	"reflect"
	"regexp"
	"sort"
	"strings"
	"testing"

	"verif/corp"
	"verif/eng"
	"verif/rec"
	"verif/wv"

	"github.com/consensys/gnark/frontend"
	"github.com/wormhole-foundation/example-near-light-client/verifier"
)

// C20 Proof shapes inconsistent with the circuit description are never accepted.
//
// Domain: every list of the proof structure (reflect walk of the circuit value) x shape
// operation applied to template and assignment alike; and coherent configuration edits against
// an unchanged proof.  Oracle: outcome is REFUSED or REJECT, never ACCEPT.

var c20Ops = []string{"dropfirst", "droplast", "duplast", "appendzero", "empty"}

type listRef struct {
	Path string // concrete path, e.g. Proof.OpeningProof.QueryRoundProofs[3].Steps[1].Evals
	Kind string // indices of rounds/elements abstracted, tree and step indices kept
	v    reflect.Value
}

var (
	reRoundIdx = regexp.MustCompile(`QueryRoundProofs\[\d+\]`)
	reCapIdx   = regexp.MustCompile(`CommitPhaseMerkleCaps\[\d+\]`)
)

var reDigits = regexp.MustCompile(`\d+`)

var tVar = reflect.TypeOf((*frontend.Variable)(nil)).Elem()

// collectLists walks the exported, non-config fields of a circuit value and returns every slice.
func collectLists(c frontend.Circuit) []listRef {
	var out []listRef
	var walk func(v reflect.Value, path string)
	walk = func(v reflect.Value, path string) {
		switch v.Kind() {
		case reflect.Ptr:
			if !v.IsNil() {
				walk(v.Elem(), path)
			}
		case reflect.Struct:
			for i := 0; i < v.NumField(); i++ {
				f := v.Type().Field(i)
				if !f.IsExported() || f.Tag.Get("gnark") == "-" {
					continue
				}
				p := f.Name
				if path != "" {
					p = path + "." + f.Name
				}
				walk(v.Field(i), p)
			}
		case reflect.Slice:
			kind := reRoundIdx.ReplaceAllString(path, "QueryRoundProofs[*]")
			kind = reCapIdx.ReplaceAllString(kind, "CommitPhaseMerkleCaps[*]")
			out = append(out, listRef{path, kind, v})
			for i := 0; i < v.Len(); i++ {
				walk(v.Index(i), fmt.Sprintf("%s[%d]", path, i))
			}
		case reflect.Array:
			for i := 0; i < v.Len(); i++ {
				walk(v.Index(i), fmt.Sprintf("%s[%d]", path, i))
			}
		}
	}
	walk(reflect.ValueOf(c), "")
	return out
}

// zeroed returns a deep copy of v with every frontend.Variable leaf set to 0.
func zeroed(v reflect.Value) reflect.Value {
	switch v.Kind() {
	case reflect.Interface:
		n := reflect.New(v.Type()).Elem()
		if v.Type() == tVar {
			n.Set(reflect.ValueOf(0))
		}
		return n
	case reflect.Struct:
		n := reflect.New(v.Type()).Elem()
		for i := 0; i < v.NumField(); i++ {
			if n.Field(i).CanSet() {
				n.Field(i).Set(zeroed(v.Field(i)))
			}
		}
		return n
	case reflect.Slice:
		n := reflect.MakeSlice(v.Type(), v.Len(), v.Len())
		for i := 0; i < v.Len(); i++ {
			n.Index(i).Set(zeroed(v.Index(i)))
		}
		return n
	case reflect.Array:
		n := reflect.New(v.Type()).Elem()
		for i := 0; i < v.Len(); i++ {
			n.Index(i).Set(zeroed(v.Index(i)))
		}
		return n
	}
	return v
}

func copyVal(v reflect.Value) reflect.Value {
	switch v.Kind() {
	case reflect.Struct:
		n := reflect.New(v.Type()).Elem()
		n.Set(v)
		for i := 0; i < v.NumField(); i++ {
			if n.Field(i).CanSet() {
				n.Field(i).Set(copyVal(v.Field(i)))
			}
		}
		return n
	case reflect.Slice:
		n := reflect.MakeSlice(v.Type(), v.Len(), v.Len())
		for i := 0; i < v.Len(); i++ {
			n.Index(i).Set(copyVal(v.Index(i)))
		}
		return n
	case reflect.Array:
		n := reflect.New(v.Type()).Elem()
		for i := 0; i < v.Len(); i++ {
			n.Index(i).Set(copyVal(v.Index(i)))
		}
		return n
	}
	return v
}

// applyShapeOp changes the list in place; false if not applicable.
func applyShapeOp(l listRef, op string) bool {
	v := l.v
	n := v.Len()
	switch op {
	case "dropfirst":
		if n == 0 {
			return false
		}
		v.Set(v.Slice(1, n))
	case "droplast":
		if n == 0 {
			return false
		}
		v.Set(v.Slice(0, n-1))
	case "duplast":
		if n == 0 {
			return false
		}
		v.Set(reflect.Append(v.Slice(0, n), copyVal(v.Index(n-1))))
	case "appendzero":
		if n == 0 {
			return false
		}
		v.Set(reflect.Append(v.Slice(0, n), zeroed(v.Index(n-1))))
	case "empty":
		if n == 0 {
			return false
		}
		v.Set(v.Slice(0, 0))
	default:
		panic("bad op")
	}
	return true
}

type c20Case struct {
	Base string   `json:"base"`
	K    int      `json:"k"`
	Kind string   `json:"kind"` // "list" | "config"
	Path string   `json:"path,omitempty"`
	Op   string   `json:"op,omitempty"`
	Edit []cdEdit `json:"edits,omitempty"`
}

func (c c20Case) key() string {
	if c.Kind == "list" {
		return fmt.Sprintf("%s/k=%d/%s/%s", c.Base, c.K, c.Path, c.Op)
	}
	if c.Kind == "list-second" {
		return fmt.Sprintf("%s/k=%d/second-proof-of-one-chip/%s/%s", c.Base, c.K, c.Path, c.Op)
	}
	return fmt.Sprintf("%s/k=%d/config/%v", c.Base, c.K, c.Edit)
}

func findList(c frontend.Circuit, path string) (listRef, bool) {
	for _, l := range collectLists(c) {
		if l.Path == path {
			return l, true
		}
	}
	return listRef{}, false
}

func c20Run(c c20Case) (viol, trivial bool, desc string, res eng.Result) {
	in := wv.Load(c.Base, c.K)
	if c.Kind == "list" {
		var tmpl, asg *verifier.VerifierCircuit = in.Circuit(), in.Circuit()
		lt, ok1 := findList(tmpl, c.Path)
		la, ok2 := findList(asg, c.Path)
		if !ok1 || !ok2 || !applyShapeOp(lt, c.Op) || !applyShapeOp(la, c.Op) {
			return false, true, "", res
		}
		res = eng.Run(tmpl, asg, eng.Options{Mode: eng.ModeNative})
		if res.Outcome != eng.Accept {
			return false, false, "", res
		}
		if r2 := eng.Run(tmpl, asg, eng.Options{Mode: eng.ModePlain}); r2.Outcome != eng.Accept {
			return false, false, "native-only accept", res
		}
		return true, false, fmt.Sprintf("%s with list %s altered by %s (template and assignment) is ACCEPTED", in.Name(), c.Path, c.Op), res
	}
	if c.Kind == "list-second" {
		// the shape-altered proof is the second one verified through a VerifierChip that has just verified the
		// unaltered proof (an aggregation-style circuit): what the chip did before must not relax the shape checks
		mk := func() (*twoProofs, bool) {
			h, x := in.Circuit(), in.Circuit()
			l, ok := findList(x, c.Path)
			if !ok || !applyShapeOp(l, c.Op) {
				return nil, false
			}
			return &twoProofs{PI1: h.PublicInputs, PI2: x.PublicInputs, P1: h.Proof, P2: x.Proof, VD1: h.VerifierData, VD2: x.VerifierData, CD: in.CD}, true
		}
		tmpl, ok1 := mk()
		asg, ok2 := mk()
		if !ok1 || !ok2 {
			return false, true, "", res
		}
		res = eng.Run(tmpl, asg, eng.Options{Mode: eng.ModeNative})
		if res.Outcome != eng.Accept {
			return false, false, "", res
		}
		mk2 := func() *twoProofs { x, _ := mk(); return x }
		if r2 := eng.Run(mk2(), mk2(), eng.Options{Mode: eng.ModePlain}); r2.Outcome != eng.Accept {
			return false, false, "native-only accept", res
		}
		return true, false, fmt.Sprintf("%s with list %s altered by %s (template and assignment) is ACCEPTED when it is verified through a VerifierChip that verified the unaltered proof first", in.Name(), c.Path, c.Op), res
	}
	// configuration edit(s) against the unchanged proof
	doc := loadGeneric(corp.Path(c.Base, "common_data.json"))
	changed := false
	for _, e := range c.Edit {
		if e.apply(doc) {
			changed = true
		}
	}
	if !changed {
		return false, true, "", res
	}
	cd, rc, err := commonFromDoc(doc, c.K)
	if err != nil {
		res.Outcome, res.Msg = eng.Refused, err.Error()
		return false, false, "", res
	}
	if refVerdict(&rc, &in.Ref.P, &in.Ref.V) == nil {
		return false, true, "reference accepts the proof under the edited configuration", res
	}
	tmpl := in.Circuit()
	tmpl.CommonCircuitData = cd
	res = eng.Run(tmpl, in.Circuit(), eng.Options{Mode: eng.ModeNative})
	if res.Outcome != eng.Accept {
		return false, false, "", res
	}
	return true, false, fmt.Sprintf("%s is ACCEPTED under configuration edit %v although the shape no longer matches", in.Name(), c.Edit), res
}

func c20ConfigEdits() [][]cdEdit {
	var out [][]cdEdit
	both := func(field, op string) []cdEdit {
		return []cdEdit{{Path: []string{"config", "fri_config", field}, Op: op}, {Path: []string{"fri_params", "config", field}, Op: op}}
	}
	for _, op := range []string{"+1", "-1"} {
		for _, f := range []string{"rate_bits", "cap_height", "num_query_rounds"} {
			out = append(out, both(f, op))
		}
		out = append(out, []cdEdit{{Path: []string{"config", "fri_config", "num_query_rounds"}, Op: op}})
		out = append(out, []cdEdit{{Path: []string{"fri_params", "config", "num_query_rounds"}, Op: op}})
		out = append(out, []cdEdit{{Path: []string{"fri_params", "degree_bits"}, Op: op}})
		out = append(out, []cdEdit{{Path: []string{"fri_params", "reduction_arity_bits", "0"}, Op: op}})
		out = append(out, []cdEdit{{Path: []string{"fri_params", "reduction_arity_bits", "1"}, Op: op}})
	}
	return out
}

func TestC20(t *testing.T) {
	r := rec.New("C20")
	defer r.Flush()
	r.Rule("(a) every slice reachable in the circuit value (reflect walk: caps, opening lists by kind, query rounds, eval proofs, leaf elements, siblings, steps, evals, final-poly coefficients, public inputs, key cap; ~40 list kinds, per kind the first, a middle and the last query round) x {drop first, drop last, duplicate last, append zero element, empty}, applied to template and assignment together (gnark fixes shapes at build time), on corpus proofs (quick: A1 full and B2/k=3; thorough: all five, full); (b) coherent configuration edits (rate bits, cap height, query rounds in both copies and in either copy alone, degree bits, each reduction arity) +-1 against the unchanged proof, labelled by the reference verifier; (c) per list kind 'duplicate last' and one rotating operation (thorough: all five) applied to the second of two proofs verified through one VerifierChip (the first, unaltered, proof has just been verified by it; 1-round prefix instances).  Oracle: outcome in {REFUSED, REJECT}, never ACCEPT.  Trivial = operation not applicable (empty list) or configuration edit the reference accepts; distinct = (instance, list path, op).")
	r.Assume("proof-of-work bits and single-copy edits of fields the verifier reads from one copy only are not 'shape' changes and are not generated")

	var rp c20Case
	if is, err := rec.LoadReplay(&rp); is {
		if err != nil {
			r.Infra(t, "replay: %v", err)
		}
		v, _, d, _ := c20Run(rp)
		r.Case("replay", true, rp.key(), func() any { return rp })
		if v {
			r.Fail(t, "C20/"+rp.key(), rp, "%s", d)
		}
		r.Done()
		return
	}

	verdicts := map[string]int{}
	exec := func(c c20Case, class string) {
		viol, trivial, d, res := c20Run(c)
		if !trivial {
			verdicts[res.Outcome.String()+": "+reDigits.ReplaceAllString(truncate(res.Msg, 60), "#")]++
		}
		r.Case(class, !trivial, c.key(), func() any {
			return map[string]any{"case": c, "outcome": res.Outcome.String(), "at": res.Site, "msg": truncate(res.Msg, 90)}
		})
		if viol {
			r.Fail(t, "C20/"+c.key(), c, "%s", d)
		}
	}

	insts := [][2]any{{"A1", 28}, {"B2", 3}}
	if rec.Thorough() {
		insts = nil
		for _, b := range corp.Names {
			insts = append(insts, [2]any{b, 28})
		}
		insts = append(insts, [2]any{"A2", 1}, [2]any{"B1", 2})
	}
	item := 0
	kinds := map[string]bool{}
	for _, ik := range insts {
		base, k := ik[0].(string), ik[1].(int)
		in := wv.Load(base, k)
		lists := collectLists(in.Circuit())
		byKind := map[string][]listRef{}
		for _, l := range lists {
			byKind[l.Kind] = append(byKind[l.Kind], l)
		}
		var ks []string
		for kd := range byKind {
			ks = append(ks, kd)
			kinds[kd] = true
		}
		sort.Strings(ks)
		for _, kd := range ks {
			ls := byKind[kd]
			pick := []listRef{ls[0]}
			if len(ls) > 2 {
				pick = append(pick, ls[len(ls)/2])
			}
			if len(ls) > 1 {
				pick = append(pick, ls[len(ls)-1])
			}
			if rec.Thorough() && len(ls) > 6 {
				pick = append(pick, ls[1], ls[len(ls)/3], ls[len(ls)-2])
			}
			for _, l := range pick {
				for _, op := range c20Ops {
					item++
					if !rec.Mine(item) {
						continue
					}
					exec(c20Case{Base: base, K: k, Kind: "list", Path: l.Path, Op: op}, "list/"+shortKind(kd)+"/"+op)
				}
			}
			// one operation per list kind (rotating) on the second proof of a shared chip, on a short prefix instance
			item++
			if rec.Mine(item) {
				l2s := byKind2(base, 1)[kd]
				if len(l2s) > 0 {
					ops := []string{"duplast", c20Ops[item%len(c20Ops)]}
					if rec.Thorough() {
						ops = c20Ops
					}
					seen := map[string]bool{}
					for _, op := range ops {
						if !seen[op] {
							seen[op] = true
							exec(c20Case{Base: base, K: 1, Kind: "list-second", Path: l2s[len(l2s)-1].Path, Op: op}, "second-proof-of-one-chip/"+shortKind(kd)+"/"+op)
						}
					}
				}
			}
		}
		for _, es := range c20ConfigEdits() {
			item++
			if !rec.Mine(item) {
				continue
			}
			exec(c20Case{Base: base, K: k, Kind: "config", Edit: es}, "config/"+es[len(es)-1].Path[len(es[len(es)-1].Path)-1])
		}
	}
	r.Extra("list_kinds", fmt.Sprint(len(kinds)))
	r.Extra("verdicts", verdicts)
	r.Done()
}

// byKind2: the lists of the k-round prefix instance, by kind
func byKind2(base string, k int) map[string][]listRef {
	m := map[string][]listRef{}
	for _, l := range collectLists(wv.Load(base, k).Circuit()) {
		m[l.Kind] = append(m[l.Kind], l)
	}
	return m
}

func shortKind(k string) string {
	k = strings.TrimPrefix(k, "Proof.")
	k = strings.Replace(k, "OpeningProof.", "", 1)
	k = strings.Replace(k, "QueryRoundProofs[*].", "round.", 1)
	k = strings.Replace(k, "InitialTreesProof.", "", 1)
	return k
}

package props

import (
	"encoding/json"
	"fmt"
	"math/big"
	"testing"

	"verif/corp"
	"verif/eng"
	"verif/gad"
	"verif/ref"
	"verif/wv"

	"github.com/consensys/gnark-crypto/ecc/bn254/fr"
	"github.com/consensys/gnark/frontend"
	"github.com/wormhole-foundation/example-near-light-client/fri"
	gl "github.com/wormhole-foundation/example-near-light-client/goldilocks"
	"github.com/wormhole-foundation/example-near-light-client/types"
	"github.com/wormhole-foundation/example-near-light-client/variables"
	"pgregory.net/rapid"
)

// C13 FRI query algebra equals the reference fold, combination and final evaluation.

// ---------- shared shape description ----------
type friShape struct {
	NumConstants, NumRoutedWires, NumWires, NumChallenges, NumPartialProducts, QDF uint64
	DegreeBits, RateBits                                                           uint64
	Steps                                                                          int
}

func (s friShape) repoCD() types.CommonCircuitData {
	var cd types.CommonCircuitData
	cd.Config.NumWires, cd.Config.NumRoutedWires, cd.Config.NumChallenges = s.NumWires, s.NumRoutedWires, s.NumChallenges
	cd.Config.FriConfig = types.FriConfig{RateBits: s.RateBits, CapHeight: 4, ProofOfWorkBits: 16, NumQueryRounds: 1}
	cd.FriParams.Config = cd.Config.FriConfig
	cd.FriParams.DegreeBits, cd.DegreeBits = s.DegreeBits, s.DegreeBits
	for i := 0; i < s.Steps; i++ {
		cd.FriParams.ReductionArityBits = append(cd.FriParams.ReductionArityBits, 4)
	}
	cd.NumConstants, cd.NumPartialProducts, cd.QuotientDegreeFactor = s.NumConstants, s.NumPartialProducts, s.QDF
	return cd
}
func (s friShape) refCD() *ref.Common {
	c := &ref.Common{}
	c.Config.NumWires, c.Config.NumRoutedWires, c.Config.NumChallenges = s.NumWires, s.NumRoutedWires, s.NumChallenges
	c.Config.FriConfig = ref.FriConfig{RateBits: s.RateBits, CapHeight: 4, ProofOfWorkBits: 16, NumQueryRounds: 1}
	c.FriParams.Config = c.Config.FriConfig
	c.FriParams.DegreeBits = s.DegreeBits
	for i := 0; i < s.Steps; i++ {
		c.FriParams.ReductionArityBits = append(c.FriParams.ReductionArityBits, 4)
	}
	c.NumConstants, c.NumPartialProducts, c.QuotientDegreeFactor = s.NumConstants, s.NumPartialProducts, s.QDF
	return c
}
func (s friShape) oracleWidths() [4]int {
	return [4]int{int(s.NumConstants + s.NumRoutedWires), int(s.NumWires), int(s.NumChallenges * (1 + s.NumPartialProducts)), int(s.NumChallenges * s.QDF)}
}
func (s friShape) nLog() uint64 { return s.DegreeBits + s.RateBits }

func shapeOfCorpus(c *ref.Common) friShape {
	return friShape{c.NumConstants, c.Config.NumRoutedWires, c.Config.NumWires, c.Config.NumChallenges, c.NumPartialProducts, c.QuotientDegreeFactor, c.FriParams.DegreeBits, c.FriParams.Config.RateBits, len(c.FriParams.ReductionArityBits)}
}

// ---------- a query round as data ----------
type c13Round struct {
	Mode       int           `json:"mode"`
	Shape      friShape      `json:"shape"`
	Challenge  uint64        `json:"challenge"` // raw 64-bit query challenge; index = low nLog bits
	Leaves     [4][]uint64   `json:"leaves"`
	InitSibs   [4][]string   `json:"init_siblings"`
	Caps       [4][]string   `json:"caps"`
	StepEvals  [][][2]uint64 `json:"step_evals"`
	StepSibs   [][]string    `json:"step_siblings"`
	CommitCaps [][]string    `json:"commit_caps"`
	FinalPoly  [][2]uint64   `json:"final_poly"`
	Alpha      [2]uint64     `json:"alpha"`
	Betas      [][2]uint64   `json:"betas"`
	Zeta       [2]uint64     `json:"zeta"`
	Reduced    [2][2]uint64  `json:"reduced_openings"`
	What       string        `json:"what"`
	// Prelude: a FRI chip for another circuit shape is created on the same API first (one gnark circuit
	// verifying proofs of two different inner circuits)
	Prelude *friShape `json:"other_fri_chip_first,omitempty"`
}

func (c *c13Round) index() uint64 { return c.Challenge & ((1 << c.Shape.nLog()) - 1) }

func toE(x [2]uint64) ref.E { return ref.E{x[0], x[1]} }
func toEs(xs [][2]uint64) []ref.E {
	o := make([]ref.E, len(xs))
	for i := range xs {
		o[i] = toE(xs[i])
	}
	return o
}
func frs(ss []string) []fr.Element {
	o := make([]fr.Element, len(ss))
	for i, s := range ss {
		o[i] = ref.HFromString(s)
	}
	return o
}

func (c *c13Round) refCtx() (*ref.RoundCtx, *ref.QueryRound) {
	cd := c.Shape.refCD()
	ctx := &ref.RoundCtx{CD: cd, FinalPoly: toEs(c.FinalPoly), Alpha: toE(c.Alpha), Betas: toEs(c.Betas)}
	ctx.Reduced = []ref.E{toE(c.Reduced[0]), toE(c.Reduced[1])}
	g := ref.PrimitiveRootOfUnity(cd.FriParams.DegreeBits)
	ctx.Points = []ref.E{toE(c.Zeta), ref.EScal(toE(c.Zeta), g)}
	for t := 0; t < 4; t++ {
		ctx.Caps = append(ctx.Caps, frs(c.Caps[t]))
	}
	for _, cc := range c.CommitCaps {
		ctx.CommitCaps = append(ctx.CommitCaps, frs(cc))
	}
	rp := &ref.QueryRound{}
	for t := 0; t < 4; t++ {
		rp.InitialTreesProof.EvalsProofs = append(rp.InitialTreesProof.EvalsProofs, ref.EvalProof{Leaf: c.Leaves[t], Proof: ref.MerkleProof{Siblings: c.InitSibs[t]}})
	}
	for s := range c.StepEvals {
		rp.Steps = append(rp.Steps, ref.QueryStep{Evals: c.StepEvals[s], MerkleProof: ref.MerkleProof{Siblings: c.StepSibs[s]}})
	}
	return ctx, rp
}

// refVerdict13: (valid, degenerate)
func (c *c13Round) refVerdict() (valid bool, degenerate bool, why string) {
	defer func() {
		if r := recover(); r != nil {
			valid, degenerate, why = false, true, fmt.Sprint(r)
		}
	}()
	ctx, rp := c.refCtx()
	// degenerate: beta on the coset of a step
	x := ref.SubgroupX(c.index(), c.Shape.nLog())
	sx := x
	idx := c.index()
	for s := range c.StepEvals {
		g := ref.PrimitiveRootOfUnity(4)
		rev := ref.ReverseBits(idx&15, 4)
		cur := ref.Mul(sx, ref.Exp(g, 16-rev))
		for i := 0; i < 16; i++ {
			if (ref.E{cur, 0}) == toE(c.Betas[s]) {
				return false, true, "beta lies on the coset"
			}
			cur = ref.Mul(cur, g)
		}
		for j := 0; j < 4; j++ {
			sx = ref.Mul(sx, sx)
		}
		idx >>= 4
	}
	err := ref.CheckQueryRound(ctx, rp, c.index())
	if err != nil {
		return false, false, err.Error()
	}
	return true, false, ""
}

func (c *c13Round) run() caseResult {
	var in []*big.Int
	addU := func(xs ...uint64) { in = append(in, u64s(xs)...) }
	addS := func(ss []string) { in = append(in, unstrs(ss)...) }
	addE := func(e [2]uint64) { addU(e[0], e[1]) }
	addU(c.Challenge)
	for t := 0; t < 4; t++ {
		addU(c.Leaves[t]...)
		addS(c.InitSibs[t])
		addS(c.Caps[t])
	}
	for s := range c.StepEvals {
		for _, e := range c.StepEvals[s] {
			addE(e)
		}
		addS(c.StepSibs[s])
		addS(c.CommitCaps[s])
	}
	for _, e := range c.FinalPoly {
		addE(e)
	}
	addE(c.Alpha)
	for _, b := range c.Betas {
		addE(b)
	}
	addE(c.Zeta)
	addE(c.Reduced[0])
	addE(c.Reduced[1])
	cc := *c
	fn := func(api frontend.API, v []frontend.Variable) []frontend.Variable {
		if cc.Prelude != nil {
			pcd := cc.Prelude.repoCD()
			fri.NewChip(api, &pcd, &pcd.FriParams)
		}
		cd := cc.Shape.repoCD()
		chip := fri.NewChip(api, &cd, &cd.FriParams)
		p := 0
		take := func(n int) []frontend.Variable { s := v[p : p+n]; p += n; return s }
		takeE := func() gl.QuadraticExtensionVariable { x := take(2); return qev(x[0], x[1]) }
		ch := glv(take(1)[0])
		var round variables.FriQueryRound
		var caps []variables.FriMerkleCap
		for t := 0; t < 4; t++ {
			ep := variables.FriEvalProof{Elements: glvs(take(len(cc.Leaves[t])))}
			ep.MerkleProof.Siblings = take(len(cc.InitSibs[t]))
			round.InitialTreesProof.EvalsProofs = append(round.InitialTreesProof.EvalsProofs, ep)
			caps = append(caps, variables.FriMerkleCap(take(len(cc.Caps[t]))))
		}
		var proof variables.FriProof
		for s := range cc.StepEvals {
			var st variables.FriQueryStep
			for range cc.StepEvals[s] {
				st.Evals = append(st.Evals, takeE())
			}
			st.MerkleProof.Siblings = take(len(cc.StepSibs[s]))
			round.Steps = append(round.Steps, st)
			proof.CommitPhaseMerkleCaps = append(proof.CommitPhaseMerkleCaps, variables.FriMerkleCap(take(len(cc.CommitCaps[s]))))
		}
		for range cc.FinalPoly {
			proof.FinalPoly.Coeffs = append(proof.FinalPoly.Coeffs, takeE())
		}
		var chal variables.FriChallenges
		chal.FriAlpha = takeE()
		for range cc.Betas {
			chal.FriBetas = append(chal.FriBetas, takeE())
		}
		zeta := takeE()
		pre := []gl.QuadraticExtensionVariable{takeE(), takeE()}
		nLog := cc.Shape.nLog()
		chip.VerifQueryRound(chip.GetInstance(zeta), &chal, pre, caps, &proof, ch, uint64(1)<<nLog, nLog, &round)
		return nil
	}
	res, _ := gad.Run(eng.Options{Mode: eng.Mode(c.Mode)}, in, fn)
	valid, degen, why := c.refVerdict()
	info := map[string]any{"what": c.What, "steps": len(c.StepEvals), "nlog": c.Shape.nLog(), "index": c.index(), "reference": why, "outcome": res.Outcome.String(), "at": res.Site}
	if degen {
		if res.Outcome == eng.Accept {
			return caseResult{Viol: "degenerate-accepted", Desc: fmt.Sprintf("degenerate round (%s) ACCEPTED", why), Info: info}
		}
		return caseResult{Info: info}
	}
	if res.Outcome == eng.Refused {
		return caseResult{Viol: "round/refused", Desc: fmt.Sprintf("well-shaped query round (%s) refused: %s", c.What, fmtRes(res)), Info: info}
	}
	if (res.Outcome == eng.Accept) != valid {
		return caseResult{Viol: "round/" + c.What, Desc: fmt.Sprintf("query round (%s; %d steps, nLog %d, index %d): circuit %v, reference valid=%v (%s)", c.What, len(c.StepEvals), c.Shape.nLog(), c.index(), res.Outcome, valid, why), Info: info}
	}
	return caseResult{Info: info}
}

// ---------- backwards construction ----------
func genShape() *rapid.Generator[friShape] {
	return rapid.Custom(func(t *rapid.T) friShape {
		s := friShape{}
		s.Steps = rapid.IntRange(1, 3).Draw(t, "steps")
		s.RateBits = uint64(rapid.IntRange(1, 4).Draw(t, "rate_bits"))
		minD := 4 * s.Steps
		if int(s.RateBits) < 4 {
			minD += 4 - int(s.RateBits)
		}
		s.DegreeBits = uint64(rapid.IntRange(minD, 4*s.Steps+4).Draw(t, "degree_bits"))
		s.NumConstants = uint64(rapid.IntRange(1, 3).Draw(t, "consts"))
		s.NumRoutedWires = uint64(rapid.IntRange(1, 4).Draw(t, "routed"))
		s.NumWires = s.NumRoutedWires + uint64(rapid.IntRange(0, 3).Draw(t, "adv"))
		s.NumChallenges = uint64(rapid.IntRange(1, 4).Draw(t, "challenges"))
		s.NumPartialProducts = uint64(rapid.IntRange(0, 2).Draw(t, "pp"))
		s.QDF = uint64(rapid.IntRange(1, 3).Draw(t, "qdf"))
		return s
	})
}

func merkleRoot(leaf []uint64, index uint64, sibs []string) fr.Element {
	d := ref.HashOrNoopBN(leaf)
	for _, s := range sibs {
		sv := ref.HFromString(s)
		if index&1 == 1 {
			d = ref.TwoToOneBN(sv, d)
		} else {
			d = ref.TwoToOneBN(d, sv)
		}
		index >>= 1
	}
	return d
}

func e2(e ref.E) [2]uint64 { return [2]uint64{e[0], e[1]} }

// constructRound draws a valid round: algebra first (every later element computed from the
// earlier ones with the reference), then one optional mutation, then Merkle sealing.
func constructRound(t *rapid.T, mutate bool) c13Round {
	s := genShape().Draw(t, "shape")
	c := c13Round{Shape: s, What: "constructed-valid"}
	nLog := s.nLog()
	idx := rapid.Uint64Range(0, (1<<nLog)-1).Draw(t, "index")
	if rapid.IntRange(0, 3).Draw(t, "coset-pattern") == 0 {
		idx = (idx &^ 15) | uint64(rapid.IntRange(0, 15).Draw(t, "within"))
	}
	hi := rapid.Uint64Range(0, (ref.P-1)>>nLog).Draw(t, "high_bits")
	c.Challenge = hi<<nLog | idx
	if c.Challenge >= ref.P {
		c.Challenge = idx
	}
	w := s.oracleWidths()
	for tr := 0; tr < 4; tr++ {
		c.Leaves[tr] = make([]uint64, w[tr])
		for i := range c.Leaves[tr] {
			c.Leaves[tr][i] = genGL().Draw(t, "leaf")
		}
	}
	c.Alpha, c.Zeta = e2(genE().Draw(t, "alpha")), e2(genE().Draw(t, "zeta"))
	c.Reduced = [2][2]uint64{e2(genE().Draw(t, "red0")), e2(genE().Draw(t, "red1"))}
	for i := 0; i < s.Steps; i++ {
		c.Betas = append(c.Betas, e2(genE().Draw(t, "beta")))
	}
	// algebra
	ctx, rp := c.refCtx()
	x := ref.SubgroupX(idx, nLog)
	// x equal to an opening point (zeta or g*zeta) is the degenerate stratum of the "combine" runner
	// (no quotient exists: plonky2 and the circuit both fail); valid rounds are constructed away from it
	for xe := (ref.E{x, 0}); ctx.Points[0] == xe || ctx.Points[1] == xe; {
		c.Zeta[0] = (c.Zeta[0] + 1) % ref.P
		ctx, rp = c.refCtx()
	}
	old := ref.CombineInitial(ctx, rp, x)
	sx, cur := x, idx
	for st := 0; st < s.Steps; st++ {
		evals := make([][2]uint64, 16)
		for i := range evals {
			evals[i] = e2(genE().Draw(t, "eval"))
		}
		evals[cur&15] = e2(old)
		c.StepEvals = append(c.StepEvals, evals)
		old = ref.ComputeEvaluation(sx, cur&15, 4, toEs(evals), toE(c.Betas[st]))
		for j := 0; j < 4; j++ {
			sx = ref.Mul(sx, sx)
		}
		cur >>= 4
	}
	fl := 1 << (s.DegreeBits - uint64(4*s.Steps))
	co := make([]ref.E, fl)
	for i := 1; i < fl; i++ {
		co[i] = genE().Draw(t, "coeff")
	}
	co[0] = ref.ESub(old, ref.EvalPoly(co, ref.EF(sx))) // solve the constant coefficient
	for _, e := range co {
		c.FinalPoly = append(c.FinalPoly, e2(e))
	}
	// mutation (after the algebra, before sealing the Merkle trees)
	postSeal := ""
	if mutate {
		bump := func(e [2]uint64) [2]uint64 {
			k := rapid.IntRange(0, 1).Draw(t, "coord")
			e[k] = ref.Add(e[k], rapid.SampledFrom([]uint64{1, ref.P - 1, 1 << 32}).Draw(t, "delta"))
			return e
		}
		kinds := []string{"init-leaf-resealed", "step-eval-at-query", "step-eval-other-resealed", "final-poly", "alpha", "beta", "zeta", "reduced-opening", "high-bits-only", "init-leaf-unsealed", "step-eval-unsealed", "index-bit"}
		c.What = rapid.SampledFrom(kinds).Draw(t, "mutation")
		switch c.What {
		case "init-leaf-resealed", "init-leaf-unsealed":
			tr := rapid.IntRange(0, 3).Draw(t, "tree")
			i := rapid.IntRange(0, len(c.Leaves[tr])-1).Draw(t, "elem")
			if c.What == "init-leaf-unsealed" {
				postSeal = fmt.Sprintf("leaf %d %d", tr, i)
			} else {
				c.Leaves[tr][i] = ref.Add(c.Leaves[tr][i], 1)
			}
		case "step-eval-at-query":
			st := rapid.IntRange(0, s.Steps-1).Draw(t, "step")
			c.StepEvals[st][(idx>>(4*uint(st)))&15] = bump(c.StepEvals[st][(idx>>(4*uint(st)))&15])
		case "step-eval-other-resealed", "step-eval-unsealed":
			st := rapid.IntRange(0, s.Steps-1).Draw(t, "step")
			within := int((idx >> (4 * uint(st))) & 15)
			j := (within + 1 + rapid.IntRange(0, 14).Draw(t, "other")) % 16
			if c.What == "step-eval-unsealed" {
				postSeal = fmt.Sprintf("eval %d %d", st, j)
			} else {
				c.StepEvals[st][j] = bump(c.StepEvals[st][j])
			}
		case "final-poly":
			i := rapid.IntRange(0, fl-1).Draw(t, "coeff")
			c.FinalPoly[i] = bump(c.FinalPoly[i])
		case "alpha":
			c.Alpha = bump(c.Alpha)
		case "beta":
			i := rapid.IntRange(0, s.Steps-1).Draw(t, "step")
			c.Betas[i] = bump(c.Betas[i])
		case "zeta":
			c.Zeta = bump(c.Zeta)
		case "reduced-opening":
			i := rapid.IntRange(0, 1).Draw(t, "batch")
			c.Reduced[i] = bump(c.Reduced[i])
		case "high-bits-only":
			hi2 := rapid.Uint64Range(0, (ref.P-1)>>nLog).Draw(t, "high_bits2")
			if ch := hi2<<nLog | idx; ch < ref.P {
				c.Challenge = ch
			}
		case "index-bit":
			postSeal = "indexbit"
		}
	}
	// seal: Merkle paths with random siblings, roots placed in the selected cap slot
	slot := idx >> (nLog - 4)
	rndCap := func() []string {
		o := make([]string, 16)
		for i := range o {
			o[i] = genHashVal().Draw(t, "cap").String()
		}
		return o
	}
	rndSibs := func(n int) []string {
		o := make([]string, n)
		for i := range o {
			o[i] = genHashVal().Draw(t, "sibling").String()
		}
		return o
	}
	for tr := 0; tr < 4; tr++ {
		c.InitSibs[tr] = rndSibs(int(nLog) - 4)
		c.Caps[tr] = rndCap()
		c.Caps[tr][slot] = hstr(merkleRoot(c.Leaves[tr], idx, c.InitSibs[tr]))
	}
	cur = idx
	for st := 0; st < s.Steps; st++ {
		cur >>= 4
		h := int(nLog) - 4*(st+1)
		c.StepSibs = append(c.StepSibs, rndSibs(h-4))
		cc := rndCap()
		var flat []uint64
		for _, e := range c.StepEvals[st] {
			flat = append(flat, e[0], e[1])
		}
		cc[slot] = hstr(merkleRoot(flat, cur, c.StepSibs[st]))
		c.CommitCaps = append(c.CommitCaps, cc)
	}
	switch {
	case postSeal == "indexbit":
		b := uint(rapid.IntRange(0, int(nLog)-1).Draw(t, "bit"))
		c.Challenge ^= 1 << b
		if c.Challenge >= ref.P {
			c.Challenge ^= 1 << b
			c.What = "constructed-valid"
		}
	case postSeal != "":
		var a, b int
		var kind string
		fmt.Sscanf(postSeal, "%s %d %d", &kind, &a, &b)
		if kind == "leaf" {
			c.Leaves[a][b] = ref.Add(c.Leaves[a][b], 1)
		} else {
			c.StepEvals[a][b][0] = ref.Add(c.StepEvals[a][b][0], 1)
		}
	}
	return c
}

// realRound extracts query round j of a corpus proof.
func realRound(base string, j int) c13Round {
	in := wv.Load(base, 28)
	ch := in.Challenges()
	p := &in.Ref.P.Proof
	c := c13Round{Shape: shapeOfCorpus(&in.Ref.C), Challenge: ch.QueryIndices[j], What: fmt.Sprintf("real %s round %d", base, j)}
	rp := p.OpeningProof.QueryRoundProofs[j]
	caps := [][]string{in.Ref.V.ConstantsSigmasCap, p.WiresCap, p.ZsCap, p.QuotientCap}
	for t := 0; t < 4; t++ {
		c.Leaves[t] = append([]uint64{}, rp.InitialTreesProof.EvalsProofs[t].Leaf...)
		c.InitSibs[t] = rp.InitialTreesProof.EvalsProofs[t].Proof.Siblings
		c.Caps[t] = caps[t]
	}
	for s := range rp.Steps {
		ev := make([][2]uint64, len(rp.Steps[s].Evals))
		copy(ev, rp.Steps[s].Evals)
		c.StepEvals = append(c.StepEvals, ev)
		c.StepSibs = append(c.StepSibs, rp.Steps[s].MerkleProof.Siblings)
		c.CommitCaps = append(c.CommitCaps, p.OpeningProof.CommitPhaseMerkleCaps[s])
	}
	c.FinalPoly = append([][2]uint64{}, p.OpeningProof.FinalPoly.Coeffs...)
	c.Alpha, c.Zeta = e2(ch.FriAlpha), e2(ch.Zeta)
	for _, b := range ch.FriBetas {
		c.Betas = append(c.Betas, e2(b))
	}
	red, _ := ref.ReducedOpenings(&in.Ref.C, &p.Openings, ch.FriAlpha, ch.Zeta)
	c.Reduced = [2][2]uint64{e2(red[0]), e2(red[1])}
	return c
}

// ---------- sub-gadgets ----------
type c13Sub struct {
	Op    string      `json:"op"` // subgroupx | computeeval | finalpoly | combine
	Mode  int         `json:"mode"`
	NLog  uint64      `json:"nlog,omitempty"`
	Index uint64      `json:"index,omitempty"`
	X     uint64      `json:"x,omitempty"`
	Evals [][2]uint64 `json:"evals,omitempty"`
	Beta  [2]uint64   `json:"beta,omitempty"`
	Poly  [][2]uint64 `json:"poly,omitempty"`
	Point [2]uint64   `json:"point,omitempty"`
}

func c13SubRun(a c13Sub) caseResult {
	switch a.Op {
	case "subgroupx":
		bits := make([]*big.Int, a.NLog)
		for i := range bits {
			bits[i] = big.NewInt(int64(a.Index>>uint(i)) & 1)
		}
		fn := func(api frontend.API, v []frontend.Variable) []frontend.Variable {
			cd := types.CommonCircuitData{}
			return []frontend.Variable{fri.NewChip(api, &cd, &cd.FriParams).VerifSubgroupX(v, a.NLog).Limb}
		}
		return expectOutputs(fmt.Sprintf("calculateSubgroupX[nLog=%d]", a.NLog), eng.Mode(a.Mode), bits, fn, []*big.Int{bu(ref.SubgroupX(a.Index, a.NLog))})
	case "computeeval":
		in := []*big.Int{bu(a.X)}
		for i := 0; i < 4; i++ {
			in = append(in, big.NewInt(int64(a.Index>>uint(i))&1))
		}
		in = append(in, flatE(toEs(a.Evals))...)
		in = append(in, bu(a.Beta[0]), bu(a.Beta[1]))
		fn := func(api frontend.API, v []frontend.Variable) []frontend.Variable {
			cd := types.CommonCircuitData{}
			var ev []gl.QuadraticExtensionVariable
			for i := 0; i < 16; i++ {
				ev = append(ev, qev(v[5+2*i], v[6+2*i]))
			}
			r := fri.NewChip(api, &cd, &cd.FriParams).VerifComputeEvaluation(glv(v[0]), v[1:5], 4, ev, qev(v[37], v[38]))
			return []frontend.Variable{r[0].Limb, r[1].Limb}
		}
		// degenerate: beta on the coset
		g := ref.PrimitiveRootOfUnity(4)
		cur := ref.Mul(a.X, ref.Exp(g, 16-ref.ReverseBits(a.Index&15, 4)))
		for i := 0; i < 16; i++ {
			if (ref.E{cur, 0}) == toE(a.Beta) {
				cr := expectReject("computeEvaluation[beta on coset]", eng.Mode(a.Mode), in, fn)
				cr.Info = "degenerate"
				return cr
			}
			cur = ref.Mul(cur, g)
		}
		want := ref.ComputeEvaluation(a.X, a.Index&15, 4, toEs(a.Evals), toE(a.Beta))
		return expectOutputs("computeEvaluation", eng.Mode(a.Mode), in, fn, flatE([]ref.E{want}))
	case "finalpoly":
		in := flatE(toEs(a.Poly))
		in = append(in, bu(a.Point[0]), bu(a.Point[1]))
		n := len(a.Poly)
		fn := func(api frontend.API, v []frontend.Variable) []frontend.Variable {
			cd := types.CommonCircuitData{}
			var pc variables.PolynomialCoeffs
			for i := 0; i < n; i++ {
				pc.Coeffs = append(pc.Coeffs, qev(v[2*i], v[2*i+1]))
			}
			r := fri.NewChip(api, &cd, &cd.FriParams).VerifFinalPolyEval(pc, qev(v[2*n], v[2*n+1]))
			return []frontend.Variable{r[0].Limb, r[1].Limb}
		}
		return expectOutputs(fmt.Sprintf("finalPolyEval[len=%d]", n), eng.Mode(a.Mode), in, fn, flatE([]ref.E{ref.EvalPoly(toEs(a.Poly), toE(a.Point))}))
	}
	panic("bad op")
}

type c13Combine struct {
	Mode    int          `json:"mode"`
	Shape   friShape     `json:"shape"`
	Leaves  [4][]uint64  `json:"leaves"`
	Alpha   [2]uint64    `json:"alpha"`
	Zeta    [2]uint64    `json:"zeta"`
	X       [2]uint64    `json:"x"`
	Reduced [2][2]uint64 `json:"reduced"`
	Prelude *friShape    `json:"other_fri_chip_first,omitempty"`
	// Warmup: the same chip first combines the same data under this other alpha (a second proof through one chip)
	Warmup *[2]uint64 `json:"other_alpha_first_on_same_chip,omitempty"`
}

func c13CombineRun(a c13Combine) caseResult {
	cdr := a.Shape.refCD()
	ctx := &ref.RoundCtx{CD: cdr, Alpha: toE(a.Alpha), Reduced: []ref.E{toE(a.Reduced[0]), toE(a.Reduced[1])}}
	g := ref.PrimitiveRootOfUnity(cdr.FriParams.DegreeBits)
	ctx.Points = []ref.E{toE(a.Zeta), ref.EScal(toE(a.Zeta), g)}
	rp := &ref.QueryRound{}
	var in []*big.Int
	for t := 0; t < 4; t++ {
		rp.InitialTreesProof.EvalsProofs = append(rp.InitialTreesProof.EvalsProofs, ref.EvalProof{Leaf: a.Leaves[t]})
		in = append(in, u64s(a.Leaves[t])...)
	}
	in = append(in, u64s([]uint64{a.Alpha[0], a.Alpha[1], a.Zeta[0], a.Zeta[1], a.X[0], a.X[1], a.Reduced[0][0], a.Reduced[0][1], a.Reduced[1][0], a.Reduced[1][1]})...)
	fn := func(api frontend.API, v []frontend.Variable) []frontend.Variable {
		if a.Prelude != nil {
			pcd := a.Prelude.repoCD()
			fri.NewChip(api, &pcd, &pcd.FriParams)
		}
		cd := a.Shape.repoCD()
		chip := fri.NewChip(api, &cd, &cd.FriParams)
		p := 0
		take := func(n int) []frontend.Variable { s := v[p : p+n]; p += n; return s }
		takeE := func() gl.QuadraticExtensionVariable { x := take(2); return qev(x[0], x[1]) }
		var tp variables.FriInitialTreeProof
		for t := 0; t < 4; t++ {
			tp.EvalsProofs = append(tp.EvalsProofs, variables.FriEvalProof{Elements: glvs(take(len(a.Leaves[t])))})
		}
		alpha, zeta, x := takeE(), takeE(), takeE()
		pre := []gl.QuadraticExtensionVariable{takeE(), takeE()}
		if a.Warmup != nil && !(toE(a.X) == ctx.Points[0] || toE(a.X) == ctx.Points[1]) {
			wa := gl.QuadraticExtensionVariable{gl.NewVariable(a.Warmup[0]), gl.NewVariable(a.Warmup[1])}
			chip.VerifCombineInitial(chip.GetInstance(zeta), tp, wa, x, pre)
		}
		r := chip.VerifCombineInitial(chip.GetInstance(zeta), tp, alpha, x, pre)
		return []frontend.Variable{r[0].Limb, r[1].Limb}
	}
	// the gadget takes x as an extension element; the reference as a base element when x[1]==0
	degenerate := toE(a.X) == ctx.Points[0] || toE(a.X) == ctx.Points[1]
	if degenerate {
		return expectReject("friCombineInitial[x equals an opening point]", eng.Mode(a.Mode), in, fn)
	}
	want := combineInitialE(ctx, rp, toE(a.X))
	return expectOutputs("friCombineInitial", eng.Mode(a.Mode), in, fn, flatE([]ref.E{want}))
}

// combineInitialE: reference combination with an extension-field x (generalises ref.CombineInitial).
func combineInitialE(ctx *ref.RoundCtx, rp *ref.QueryRound, x ref.E) ref.E {
	cd := ctx.CD
	nPre := cd.NumConstants + cd.Config.NumRoutedWires
	type pi struct{ o, i uint64 }
	var all, zs []pi
	for i := uint64(0); i < nPre; i++ {
		all = append(all, pi{0, i})
	}
	for i := uint64(0); i < cd.Config.NumWires; i++ {
		all = append(all, pi{1, i})
	}
	for i := uint64(0); i < cd.Config.NumChallenges*(1+cd.NumPartialProducts); i++ {
		all = append(all, pi{2, i})
	}
	for i := uint64(0); i < cd.Config.NumChallenges*cd.QuotientDegreeFactor; i++ {
		all = append(all, pi{3, i})
	}
	for i := uint64(0); i < cd.Config.NumChallenges; i++ {
		zs = append(zs, pi{2, i})
	}
	sum := ref.EZero
	for bi, batch := range [][]pi{all, zs} {
		var evs []ref.E
		for _, p := range batch {
			evs = append(evs, ref.EF(rp.InitialTreesProof.EvalsProofs[p.o].Leaf[p.i]))
		}
		re := ref.EReduceWithPowers(evs, ctx.Alpha)
		sum = ref.EMul(sum, ref.EExp(ctx.Alpha, uint64(len(evs))))
		sum = ref.EAdd(sum, ref.EDiv(ref.ESub(re, ctx.Reduced[bi]), ref.ESub(x, ctx.Points[bi])))
	}
	return sum
}

func TestC13(t *testing.T) {
	s := newSuite("C13")
	compiledEvery = 25
	r := s.r
	defer r.Flush()
	r.Rule("(i) sub-gadgets through export hooks: calculateSubgroupX on all-bit-pattern/random indices for nLog 5..32; computeEvaluation on all 16 within-coset positions x random evaluation vectors, betas and domain points (degenerate beta-on-coset stratum expects REJECT); finalPolyEval for 1..32 coefficients; friCombineInitial on random shapes, batches, alpha, openings.  (ii) whole verifyQueryRound on real rounds of the corpus and on rounds constructed backwards with the reference (1..3 reduction steps, random shapes, random high bits of the query challenge): every later element is computed from the earlier ones, Merkle trees are sealed over random siblings.  (iii) each constructed round with one ingredient changed, re-sealing the Merkle trees where needed so that only the algebra can reject (initial leaf, evaluation at/away from the query position, final-poly coefficient, alpha, beta, zeta, reduced opening), or without re-sealing, or an index bit; 'high bits only' must still accept; a quarter of the combine / round cases first creates a FRI chip for another circuit shape on the same API.  Oracle: values equal the reference; round ACCEPT <=> reference round check passes.  Non-trivial = every case except unmodified constructed rounds are also counted (they exercise the accept side); distinct = full case.")
	r.Assume("reference FRI (accepts the 140 real rounds)", "degenerate points (beta on the coset, x equal to an opening point) are rejected by design of InverseExtension (C08)")
	s.on("sub", func(b json.RawMessage) caseResult { return c13SubRun(unmarshal[c13Sub](b)) })
	s.on("combine", func(b json.RawMessage) caseResult { return c13CombineRun(unmarshal[c13Combine](b)) })
	s.on("round", func(b json.RawMessage) caseResult { c := unmarshal[c13Round](b); return c.run() })
	if s.replay(t) {
		return
	}

	rapidCheck(t, "sub", tierN(1800, 50000), func(rt *rapid.T) {
		m := int(genMode().Draw(rt, "mode"))
		switch rapid.SampledFrom([]string{"subgroupx", "computeeval", "computeeval", "finalpoly"}).Draw(rt, "op") {
		case "subgroupx":
			nl := uint64(rapid.IntRange(5, 32).Draw(rt, "nlog"))
			idx := rapid.Uint64Range(0, (1<<nl)-1).Draw(rt, "index")
			switch rapid.IntRange(0, 4).Draw(rt, "pattern") {
			case 0:
				idx = (1 << nl) - 1
			case 1:
				idx = 1 << uint(rapid.IntRange(0, int(nl)-1).Draw(rt, "bit"))
			case 2:
				idx = 0
			}
			s.exec(rt, "sub", c13Sub{Op: "subgroupx", Mode: m, NLog: nl, Index: idx}, "calculateSubgroupX")
		case "computeeval":
			a := c13Sub{Op: "computeeval", Mode: m, Index: uint64(rapid.IntRange(0, 15).Draw(rt, "within"))}
			a.X = rapid.Uint64Range(1, ref.P-1).Draw(rt, "x")
			if rapid.Bool().Draw(rt, "domainpoint") {
				nl := uint64(rapid.IntRange(8, 20).Draw(rt, "nlog"))
				a.X = ref.SubgroupX(rapid.Uint64Range(0, (1<<nl)-1).Draw(rt, "xi"), nl)
			}
			for i := 0; i < 16; i++ {
				a.Evals = append(a.Evals, e2(genE().Draw(rt, "eval")))
			}
			a.Beta = e2(genE().Draw(rt, "beta"))
			class := "computeEvaluation"
			if rapid.IntRange(0, 19).Draw(rt, "degenerate") == 0 {
				g := ref.PrimitiveRootOfUnity(4)
				a.Beta = [2]uint64{ref.Mul(a.X, ref.Exp(g, uint64(rapid.IntRange(0, 15).Draw(rt, "k")))), 0}
				class = "computeEvaluation/degenerate-beta-on-coset"
			}
			s.exec(rt, "sub", a, class)
		case "finalpoly":
			a := c13Sub{Op: "finalpoly", Mode: m, Point: e2(genE().Draw(rt, "point"))}
			n := rapid.IntRange(1, 32).Draw(rt, "len")
			for i := 0; i < n; i++ {
				a.Poly = append(a.Poly, e2(genE().Draw(rt, "c")))
			}
			s.exec(rt, "sub", a, "finalPolyEval")
		}
	})
	rapidCheck(t, "combine", tierN(500, 15000), func(rt *rapid.T) {
		a := c13Combine{Mode: int(genMode().Draw(rt, "mode")), Shape: genShape().Draw(rt, "shape")}
		w := a.Shape.oracleWidths()
		for tr := 0; tr < 4; tr++ {
			for i := 0; i < w[tr]; i++ {
				a.Leaves[tr] = append(a.Leaves[tr], genGL().Draw(rt, "leaf"))
			}
		}
		a.Alpha, a.Zeta = e2(genE().Draw(rt, "alpha")), e2(genE().Draw(rt, "zeta"))
		a.X = [2]uint64{rapid.Uint64Range(1, ref.P-1).Draw(rt, "x"), 0}
		a.Reduced = [2][2]uint64{e2(genE().Draw(rt, "r0")), e2(genE().Draw(rt, "r1"))}
		class := "friCombineInitial"
		if rapid.IntRange(0, 24).Draw(rt, "degenerate") == 0 {
			a.Zeta = a.X
			class += "/degenerate-x-equals-zeta"
		}
		if rapid.IntRange(0, 3).Draw(rt, "prelude") == 0 {
			ps := genShape().Draw(rt, "other_shape")
			a.Prelude = &ps
			class += "/after-another-fri-chip"
		}
		if rapid.IntRange(0, 3).Draw(rt, "warmup") == 0 {
			w := e2(genE().Draw(rt, "other_alpha"))
			a.Warmup = &w
			class += "/second-use-of-the-chip"
		}
		s.exec(rt, "combine", a, class)
	})
	rapidCheck(t, "round", tierN(600, 25000), func(rt *rapid.T) {
		c := constructRound(rt, rapid.IntRange(0, 3).Draw(rt, "mutate") != 0)
		c.Mode = int(genMode().Draw(rt, "mode"))
		rclass := "round/" + c.What
		if rapid.IntRange(0, 3).Draw(rt, "prelude") == 0 {
			ps := genShape().Draw(rt, "other_shape")
			c.Prelude = &ps
			rclass += "/after-another-fri-chip"
		}
		s.exec(rt, "round", c, rclass)
	})
	n := 0
	stride := 4
	bases := []string{"A1", "B3"}
	if rec_thorough() {
		stride, bases = 1, corp.Names
	}
	for _, b := range bases {
		for j := 0; j < 28; j += stride {
			n++
			if !mine(n) {
				continue
			}
			c := realRound(b, j)
			c.Mode = int(eng.ModeNative)
			s.exec(t, "round", c, "round/real")
			c2 := realRound(b, j)
			c2.Mode = int(eng.ModeNative)
			c2.StepEvals[j%2][(j*7)%16][0] = ref.Add(c2.StepEvals[j%2][(j*7)%16][0], 1)
			c2.What += " (step eval +1)"
			s.exec(t, "round", c2, "round/real-perturbed")
		}
	}
	r.Done()
}

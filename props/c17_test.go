package props

import (
	"fmt"
	"math/big"
	"reflect"
	"strings"
	"testing"

	"verif/corp"
	"verif/cs"
	"verif/eng"
	"verif/rec"
	"verif/ref"
	"verif/wv"

	"github.com/consensys/gnark/frontend"
	"github.com/wormhole-foundation/example-near-light-client/types"
	"github.com/wormhole-foundation/example-near-light-client/variables"
	"github.com/wormhole-foundation/example-near-light-client/verifier"
	"pgregory.net/rapid"
)

// C17 Non-canonical encodings of proof elements are rejected everywhere.
//
// Domain: every Goldilocks-valued leaf of the proof (openings, queried leaf values, fold
// evaluations, final-polynomial coefficients, proof-of-work witness) x offset k*p.
// Oracle: the whole verifier circuit must not ACCEPT.

type c17Case struct {
	Base string `json:"base"`
	K    int    `json:"k"`
	Leaf string `json:"leaf"`
	Off  string `json:"offset_k"` // multiple of p added
	// Backend "r1cs": the whole circuit compiled with gnark's R1CS builder (commit range checker, as
	// deployed) and the re-encoded witness handed to gnark's solver
	Backend string `json:"backend,omitempty"`
}

var c17Compiled = map[string]*cs.System{}

func c17Offsets(v *big.Int) map[string]*big.Int {
	kmax := new(big.Int).Sub(bigR, big.NewInt(1))
	kmax.Sub(kmax, v)
	kmax.Div(kmax, bigP)
	return map[string]*big.Int{"1": big.NewInt(1), "2": big.NewInt(2), "2^64": pow2(64), "kmax": kmax}
}

var c17OffsetNames = []string{"1", "2", "2^64", "kmax"}

func c17Eligible(name string) bool {
	return strings.HasPrefix(name, "Proof_") && strings.HasSuffix(name, "_Limb")
}

func c17Run(c c17Case) (viol bool, desc string, res eng.Result) {
	rn := getRunner(c.Base, c.K)
	i, ok := rn.byName[c.Leaf]
	if !ok {
		panic("unknown leaf " + c.Leaf)
	}
	k := c17Offsets(rn.orig[i])[c.Off]
	x := new(big.Int).Mul(k, bigP)
	x.Add(x, rn.orig[i])
	muts := map[int]*big.Int{i: x}
	if c.Backend != "" {
		key := fmt.Sprintf("%s/%d", c.Base, c.K)
		sys := c17Compiled[key]
		if sys == nil {
			var err error
			sys, err = cs.CompileCircuit(cs.R1CS, cs.MechCommit, rn.in.PlainTemplate())
			if err != nil {
				res.Outcome, res.Msg = eng.Refused, err.Error()
				return true, "compile refused: " + err.Error(), res
			}
			c17Compiled[key] = sys
		}
		wv.Set(rn.vals[i], x)
		serr := sys.SolveCircuit(rn.asg, cs.TolerantHints()...)
		wv.Set(rn.vals[i], rn.orig[i])
		if serr == nil {
			res.Outcome = eng.Accept
			return true, fmt.Sprintf("%s compiled to R1CS (commit checker): leaf %s = %s + %s*p is accepted by gnark's solver", rn.in.Name(), c.Leaf, rn.orig[i], c.Off), res
		}
		res.Outcome, res.Msg = eng.Reject, truncate(serr.Error(), 80)
		return false, "", res
	}
	res = rn.run(muts, eng.Options{Mode: eng.ModeNative})
	if res.Outcome != eng.Accept {
		return false, "", res
	}
	res2 := rn.confirmAccept(muts)
	if res2.Outcome != eng.Accept {
		return false, "accepted under the native flavour only (a C06 matter): " + fmtRes(res2), res
	}
	return true, fmt.Sprintf("%s leaf %s = %s + %s*p accepted (native and bit-decomposition flavours)", rn.in.Name(), c.Leaf, rn.orig[i], c.Off), res
}

// ---- range-check stage on generated residues -------------------------------------------------
//
// The corpus proofs contain (pseudo-)random field elements only, so re-encoding their values
// never produces, e.g., a small residue plus p.  The stage check runs the verifier's canonical-form
// stage alone (hook VerifRangeCheckProof = the first step of Verify) on a proof in which one
// position holds a generated residue (edge-heavy): the canonical encoding must be accepted with
// the shipped hints, every encoding residue + m*p < r must be rejected.

type c17Stage struct {
	Proof variables.Proof
	CD    types.CommonCircuitData `gnark:"-"`
}

func (c *c17Stage) Define(api frontend.API) error {
	verifier.NewVerifierChip(api, c.CD).VerifRangeCheckProof(c.Proof)
	return nil
}

type c17StageCase struct {
	Base    string `json:"base"`
	K       int    `json:"k"`
	Leaf    string `json:"leaf"`
	Residue string `json:"residue"`
	M       string `json:"multiple_of_p"`
	Mode    int    `json:"mode"`
}

type c17StageRunner struct {
	tmpl, asg *c17Stage
	leaves    []wv.Leaf
	vals      []reflect.Value
	orig      []*big.Int
	byName    map[string]int
	elig      []int
}

var c17Stages = map[string]*c17StageRunner{}

func c17StageFor(base string, k int) *c17StageRunner {
	key := fmt.Sprintf("%s/%d", base, k)
	if s := c17Stages[key]; s != nil {
		return s
	}
	in := wv.Load(base, k)
	a, b := in.Circuit(), in.Circuit()
	s := &c17StageRunner{tmpl: &c17Stage{Proof: a.Proof, CD: a.CommonCircuitData}, asg: &c17Stage{Proof: b.Proof, CD: b.CommonCircuitData}, byName: map[string]int{}}
	s.leaves, s.vals = wv.Leaves(s.asg)
	for i, v := range s.vals {
		s.orig = append(s.orig, wv.Value(v))
		s.byName[s.leaves[i].Name] = i
		if c17Eligible(s.leaves[i].Name) {
			s.elig = append(s.elig, i)
		}
	}
	c17Stages[key] = s
	return s
}

func c17StageRun(c c17StageCase) (viol string, desc string, info map[string]any) {
	s := c17StageFor(c.Base, c.K)
	i, ok := s.byName[c.Leaf]
	if !ok {
		panic("unknown leaf " + c.Leaf)
	}
	v, m := bs(c.Residue), bs(c.M)
	defer wv.Set(s.vals[i], s.orig[i])
	wv.Set(s.vals[i], v)
	res := eng.Run(s.tmpl, s.asg, eng.Options{Mode: eng.Mode(c.Mode)})
	info = map[string]any{"canonical": res.Outcome.String()}
	if res.Outcome != eng.Accept {
		return "canonical-rejected", fmt.Sprintf("%s/k=%d range-check stage (%s flavour): canonical value %s at %s is not accepted: %s", c.Base, c.K, eng.Mode(c.Mode), v, c.Leaf, fmtRes(res)), info
	}
	if res.TolerantHints > 0 {
		return "shipped-hint-failed", fmt.Sprintf("%s/k=%d range-check stage: shipped hint failed on canonical value %s at %s", c.Base, c.K, v, c.Leaf), info
	}
	x := new(big.Int).Mul(m, bigP)
	x.Add(x, v)
	if m.Sign() == 0 || x.Cmp(bigR) >= 0 {
		return "", "", info
	}
	wv.Set(s.vals[i], x)
	res = eng.Run(s.tmpl, s.asg, eng.Options{Mode: eng.Mode(c.Mode)})
	info["noncanonical"] = res.Outcome.String()
	info["rejected_at"] = res.Site
	if res.Outcome != eng.Accept && res.FreeDivs > 0 {
		// unconstrained DivUnchecked(0,0) wires on the way: the prover chooses them (and, with them, the limb hints)
		if r3 := eng.Run(s.tmpl, s.asg, eng.Options{Mode: eng.Mode(c.Mode), FreeDiv: big.NewInt(1)}); r3.Outcome == eng.Accept {
			return "noncanonical-accepted-with-free-wire", fmt.Sprintf("%s/k=%d range-check stage: %s = %s + %s*p is ACCEPTED when the unconstrained result of DivUnchecked(0,0) is chosen as 1", c.Base, c.K, c.Leaf, v, m), info
		}
	}
	if res.Outcome == eng.Accept {
		// two-stage confirmation: a wrong ACCEPT must also show under bit decomposition
		res2 := eng.Run(s.tmpl, s.asg, eng.Options{Mode: eng.ModePlain})
		if res2.Outcome == eng.Accept {
			return "noncanonical-accepted", fmt.Sprintf("%s/k=%d range-check stage of the verifier: %s = %s + %s*p is ACCEPTED (%s flavour and bit decomposition)", c.Base, c.K, c.Leaf, v, m, eng.Mode(c.Mode)), info
		}
	}
	return "", "", info
}

var c17Residues = []uint64{0, 1, 2, 5, 65541, 1<<31 - 1, 1 << 31, 1<<32 - 2, 1<<32 - 1, 1 << 32, 1<<32 + 1, 1<<63 - 1, 1 << 63,
	ref.P - (1 << 32) - 1, ref.P - (1 << 32), ref.P - 2, ref.P - 1, 0x7fffffff00000001, 0x7fffffffffffffff, 0xfffffffe00000001}

func c17StageCases(t *testing.T, r *rec.Rec) {
	n := rec.Share(tierN(1800, 40000))
	rec.SetRapid("c17stage", n)
	rapid.Check(t, func(rt *rapid.T) {
		base := rapid.SampledFrom([]string{"A1", "A1", "B1"}).Draw(rt, "base")
		s := c17StageFor(base, 1)
		li := s.elig[rapid.IntRange(0, len(s.elig)-1).Draw(rt, "leaf")]
		var v *big.Int
		if rapid.IntRange(0, 3).Draw(rt, "rk") == 0 {
			v = bu(rapid.Uint64Range(0, ref.P-1).Draw(rt, "residue"))
		} else {
			v = bu(rapid.SampledFrom(c17Residues).Draw(rt, "edge"))
		}
		kmax := new(big.Int).Sub(bigR, big.NewInt(1))
		kmax.Sub(kmax, v)
		kmax.Div(kmax, bigP)
		var m *big.Int
		switch rapid.IntRange(0, 5).Draw(rt, "mk") {
		case 0, 1:
			m = big.NewInt(1)
		case 2:
			m = big.NewInt(int64(rapid.IntRange(2, 9).Draw(rt, "msmall")))
		case 3:
			m = pow2(uint(rapid.IntRange(1, 189).Draw(rt, "mpow")))
		case 4:
			m = kmax
		default:
			m = genBigBelow(kmax).Draw(rt, "m")
			if m.Sign() == 0 {
				m = big.NewInt(1)
			}
		}
		if rapid.IntRange(0, 7).Draw(rt, "near_r") == 0 {
			// encodings just below the BN254 modulus: x = r - j (a check of a shifted or scaled value wraps there)
			j := genBigBelow(pow2(uint(rapid.IntRange(1, 34).Draw(rt, "jbits")))).Draw(rt, "j")
			x := new(big.Int).Sub(bigR, big.NewInt(1))
			x.Sub(x, j)
			v = new(big.Int).Mod(x, bigP)
			m = new(big.Int).Div(new(big.Int).Sub(x, v), bigP)
		}
		mode := rapid.SampledFrom([]int{int(eng.ModeNative), int(eng.ModeNative), int(eng.ModePlain)}).Draw(rt, "mode")
		c := c17StageCase{Base: base, K: 1, Leaf: s.leaves[li].Name, Residue: v.String(), M: m.String(), Mode: mode}
		viol, d, info := c17StageRun(c)
		cls := "stage/random-residue"
		if v.Cmp(pow2(32)) < 0 {
			cls = "stage/residue<2^32"
		} else if new(big.Int).Sub(bigP, v).Cmp(pow2(33)) < 0 {
			cls = "stage/residue-near-p"
		} else if v.BitLen() <= 63 && v.Cmp(pow2(62)) > 0 && rapid.Bool().Draw(rt, "dummy") {
			cls = "stage/residue-near-2^63"
		}
		r.Case(cls+"/"+s.leaves[li].Kind, true, "stage"+fmt.Sprint(c), func() any { return map[string]any{"stage_case": c, "info": info} })
		if viol != "" {
			r.Fail(rt, "C17/stage/"+viol+"/"+s.leaves[li].Kind, map[string]any{"stage": c}, "%s", d)
		}
	})
}

func TestC17(t *testing.T) {
	r := rec.New("C17")
	defer r.Flush()
	r.Rule("every Goldilocks-valued proof leaf position (schema walk of the proof: openings, initial-tree leaf elements, step evaluations, final-polynomial coefficients, PoW witness; ~10.9k per proof) of the listed instances x offset k*p for k in {1, 2, 2^64, largest k keeping the value < r}; deterministic enumeration sharded by position (quick: on A1 every position outside the query rounds, every position of query rounds 0, 13 and 27 and every 5th position of the other rounds with k=1; every 7th position of B1 and every 23rd of the others with a rotating offset; thorough: all positions x all four offsets x all five proofs; plus the positions outside the query rounds of proofs checked against a description with the proof-of-work difficulty lowered to 0/1/8).  Additionally one position of every leaf kind is re-encoded on the whole circuit compiled to R1CS with the commit range checker (one query round) and handed to gnark's solver.  Oracle: whole VerifierCircuit must not ACCEPT (candidates re-checked under bit decomposition).  Additionally (stage check) the verifier's canonical-form stage alone (first step of Verify) on A1/B1 with one rapid-drawn position holding a generated residue (edge-heavy: 0, 1, <2^32, around 2^31/2^32/2^63, just below p, uniform) -- canonical encoding must be ACCEPTED with the shipped hints, residue + m*p (m in {1, 2..9, 2^j, largest, random}; also encodings r-1-j just below the BN254 modulus) must be REJECTED.  Every case is non-trivial (offset >= p changes the encoding, not the residue); distinct = (instance, leaf, offset[, residue]).")
	r.Assume("engine native flavour has exact range-check semantics (C06)", "the range-check sweep is evaluated before anything else, so a rejected case costs milliseconds")

	var rp c17Case
	var rps struct {
		Stage *c17StageCase `json:"stage"`
	}
	if is, _ := rec.LoadReplay(&rps); is && rps.Stage != nil {
		viol, d, _ := c17StageRun(*rps.Stage)
		r.Case("replay", true, fmt.Sprint(*rps.Stage), func() any { return rps.Stage })
		if viol != "" {
			r.Fail(t, "C17/stage/"+viol, rps, "%s", d)
		}
		r.Done()
		return
	}
	if is, err := rec.LoadReplay(&rp); is {
		if err != nil {
			r.Infra(t, "replay: %v", err)
		}
		v, d, _ := c17Run(rp)
		r.Case("replay", true, fmt.Sprint(rp), func() any { return rp })
		if v {
			r.Fail(t, fmt.Sprintf("C17/%s/%s", rp.Leaf, rp.Off), rp, "%s", d)
		}
		r.Done()
		return
	}

	item := 0
	sites := map[string]int{}
	do := func(base string, stride int, offs func(pos int) []string) {
		rn := getRunner(base, 28)
		pos := 0
		for i, l := range rn.leaves {
			if !c17Eligible(l.Name) {
				continue
			}
			pos++
			// stride 0 = the quick tier's stratified selection: every position outside the query rounds,
			// every position of the first, a middle and the last round, every 5th position elsewhere
			if stride == 0 {
				if !(l.Round < 0 || l.Round == 0 || l.Round == 13 || l.Round == 27 || pos%5 == 0) {
					continue
				}
			} else if stride < 0 {
				// configuration variants: positions outside the query rounds and every (-stride)-th inside
				if !(l.Round < 0 || pos%(-stride) == 0) {
					continue
				}
			} else if pos%stride != 0 {
				continue
			}
			for _, off := range offs(pos) {
				item++
				if !rec.MineExcept(item, 7%rec.NShards()) {
					continue
				}
				c := c17Case{Base: base, K: 28, Leaf: l.Name, Off: off}
				viol, d, res := c17Run(c)
				sites[res.Site]++
				r.Case(l.Kind+"/k="+off, true, fmt.Sprint(c), func() any {
					return map[string]any{"case": c, "original": rn.orig[i].String(), "outcome": res.Outcome.String(), "rejected_at": res.Site}
				})
				if viol {
					r.Fail(t, fmt.Sprintf("C17/%s/%s", l.Name, off), c, "%s", d)
				}
			}
		}
	}
	if rec.Thorough() {
		for _, b := range corp.Names {
			do(b, 1, func(int) []string { return c17OffsetNames })
		}
		for _, v := range []string{"A1@pow0", "B1@pow0", "A2@pow1", "B2@pow8"} {
			do(v, -11, func(p int) []string { return c17OffsetNames })
		}
		r.Exhaustive(true)
	} else {
		do("A1", 0, func(int) []string { return []string{"1"} })
		do("B1", 7, func(p int) []string { return []string{c17OffsetNames[p%4]} })
		for _, b := range []string{"A2", "B2", "B3"} {
			do(b, 23, func(p int) []string { return []string{c17OffsetNames[(p/23)%4]} })
		}
		// the same proof against a description with proof-of-work difficulty 0
		do("A1@pow0", -97, func(p int) []string { return []string{c17OffsetNames[p%3]} })
	}
	// one position of every Goldilocks leaf kind on the circuit compiled for the deployed backend
	if rec.ShardIdx() == 7%rec.NShards() || rec.Thorough() && rec.ShardIdx() == 8%rec.NShards() {
		base := "A1"
		if rec.ShardIdx() != 7%rec.NShards() {
			base = "B1"
		}
		rn := getRunner(base, 1)
		seen := map[string]int{}
		quickKinds := map[string]bool{"Proof_Openings_Wires": true, "Proof_Openings_PlonkZsNext": true, "Proof_Openings_QuotientPolys": true, "Proof_OpeningProof_PowWitness": true, "Proof_OpeningProof_FinalPoly_Coeffs": true,
			"Proof_OpeningProof_QueryRoundProofs_InitialTreesProof_EvalsProofs[0]_Elements": true, "Proof_OpeningProof_QueryRoundProofs_InitialTreesProof_EvalsProofs[3]_Elements": true, "Proof_OpeningProof_QueryRoundProofs_Steps[1]_Evals": true}
		for _, l := range rn.leaves {
			if !c17Eligible(l.Name) || seen[l.Kind] >= 1 || (!rec.Thorough() && !quickKinds[l.Kind]) {
				continue
			}
			seen[l.Kind]++
			off := c17OffsetNames[len(seen)%3]
			c := c17Case{Base: base, K: 1, Leaf: l.Name, Off: off, Backend: "r1cs"}
			viol, d, res := c17Run(c)
			r.Case("compiled-r1cs-commit/"+l.Kind, true, fmt.Sprint(c), func() any {
				return map[string]any{"case": c, "solver": res.Outcome.String(), "error": res.Msg}
			})
			if viol {
				r.Fail(t, fmt.Sprintf("C17/compiled/%s/%s", l.Name, off), c, "%s", d)
			}
		}
	}
	c17StageCases(t, r)
	r.Extra("rejecting_sites", sites)
	r.Done()
}

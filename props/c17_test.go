package props

import (
	"fmt"
	"math/big"
	"strings"
	"testing"

	"verif/corp"
	"verif/cs"
	"verif/eng"
	"verif/rec"
	"verif/wv"
)

// C17 Non-canonical encodings of proof elements are rejected everywhere.
//
// Domain: every Goldilocks-valued leaf of the proof (openings, queried leaf values, fold
// evaluations, final-polynomial coefficients, proof-of-work witness) x offset k*p.
// Oracle: the whole verifier circuit must not ACCEPT.

type c17Case struct {
	Base string `json:"base"`
	K    int    `json:"k"`
	Leaf string `json:"leaf"`
	Off  string `json:"offset_k"` // multiple of p added
	// Backend "r1cs": the whole circuit compiled with gnark's R1CS builder (commit range checker, as
	// deployed) and the re-encoded witness handed to gnark's solver
	Backend string `json:"backend,omitempty"`
}

var c17Compiled = map[string]*cs.System{}

func c17Offsets(v *big.Int) map[string]*big.Int {
	kmax := new(big.Int).Sub(bigR, big.NewInt(1))
	kmax.Sub(kmax, v)
	kmax.Div(kmax, bigP)
	return map[string]*big.Int{"1": big.NewInt(1), "2": big.NewInt(2), "2^64": pow2(64), "kmax": kmax}
}

var c17OffsetNames = []string{"1", "2", "2^64", "kmax"}

func c17Eligible(name string) bool {
	return strings.HasPrefix(name, "Proof_") && strings.HasSuffix(name, "_Limb")
}

func c17Run(c c17Case) (viol bool, desc string, res eng.Result) {
	rn := getRunner(c.Base, c.K)
	i, ok := rn.byName[c.Leaf]
	if !ok {
		panic("unknown leaf " + c.Leaf)
	}
	k := c17Offsets(rn.orig[i])[c.Off]
	x := new(big.Int).Mul(k, bigP)
	x.Add(x, rn.orig[i])
	muts := map[int]*big.Int{i: x}
	if c.Backend != "" {
		key := fmt.Sprintf("%s/%d", c.Base, c.K)
		sys := c17Compiled[key]
		if sys == nil {
			var err error
			sys, err = cs.CompileCircuit(cs.R1CS, cs.MechCommit, rn.in.PlainTemplate())
			if err != nil {
				res.Outcome, res.Msg = eng.Refused, err.Error()
				return true, "compile refused: " + err.Error(), res
			}
			c17Compiled[key] = sys
		}
		wv.Set(rn.vals[i], x)
		serr := sys.SolveCircuit(rn.asg, cs.TolerantHints()...)
		wv.Set(rn.vals[i], rn.orig[i])
		if serr == nil {
			res.Outcome = eng.Accept
			return true, fmt.Sprintf("%s compiled to R1CS (commit checker): leaf %s = %s + %s*p is accepted by gnark's solver", rn.in.Name(), c.Leaf, rn.orig[i], c.Off), res
		}
		res.Outcome, res.Msg = eng.Reject, truncate(serr.Error(), 80)
		return false, "", res
	}
	res = rn.run(muts, eng.Options{Mode: eng.ModeNative})
	if res.Outcome != eng.Accept {
		return false, "", res
	}
	res2 := rn.confirmAccept(muts)
	if res2.Outcome != eng.Accept {
		return false, "accepted under the native flavour only (a C06 matter): " + fmtRes(res2), res
	}
	return true, fmt.Sprintf("%s leaf %s = %s + %s*p accepted (native and bit-decomposition flavours)", rn.in.Name(), c.Leaf, rn.orig[i], c.Off), res
}

func TestC17(t *testing.T) {
	r := rec.New("C17")
	defer r.Flush()
	r.Rule("every Goldilocks-valued proof leaf position (schema walk of the proof: openings, initial-tree leaf elements, step evaluations, final-polynomial coefficients, PoW witness; ~10.9k per proof) of the listed instances x offset k*p for k in {1, 2, 2^64, largest k keeping the value < r}; deterministic enumeration sharded by position (quick: on A1 every position outside the query rounds, every position of query rounds 0, 13 and 27 and every 5th position of the other rounds with k=1; every 7th position of B1 and every 23rd of the others with a rotating offset; thorough: all positions x all four offsets x all five proofs).  Additionally one position of every leaf kind is re-encoded on the whole circuit compiled to R1CS with the commit range checker (one query round) and handed to gnark's solver.  Oracle: whole VerifierCircuit must not ACCEPT (candidates re-checked under bit decomposition).  Every case is non-trivial (offset >= p changes the encoding, not the residue); distinct = (instance, leaf, offset).")
	r.Assume("engine native flavour has exact range-check semantics (C06)", "the range-check sweep is evaluated before anything else, so a rejected case costs milliseconds")

	var rp c17Case
	if is, err := rec.LoadReplay(&rp); is {
		if err != nil {
			r.Infra(t, "replay: %v", err)
		}
		v, d, _ := c17Run(rp)
		r.Case("replay", true, fmt.Sprint(rp), func() any { return rp })
		if v {
			r.Fail(t, fmt.Sprintf("C17/%s/%s", rp.Leaf, rp.Off), rp, "%s", d)
		}
		r.Done()
		return
	}

	item := 0
	sites := map[string]int{}
	do := func(base string, stride int, offs func(pos int) []string) {
		rn := getRunner(base, 28)
		pos := 0
		for i, l := range rn.leaves {
			if !c17Eligible(l.Name) {
				continue
			}
			pos++
			// stride 0 = the quick tier's stratified selection: every position outside the query rounds,
			// every position of the first, a middle and the last round, every 5th position elsewhere
			if stride == 0 {
				if !(l.Round < 0 || l.Round == 0 || l.Round == 13 || l.Round == 27 || pos%5 == 0) {
					continue
				}
			} else if pos%stride != 0 {
				continue
			}
			for _, off := range offs(pos) {
				item++
				if !rec.MineExcept(item, 7%rec.NShards()) {
					continue
				}
				c := c17Case{Base: base, K: 28, Leaf: l.Name, Off: off}
				viol, d, res := c17Run(c)
				sites[res.Site]++
				r.Case(l.Kind+"/k="+off, true, fmt.Sprint(c), func() any {
					return map[string]any{"case": c, "original": rn.orig[i].String(), "outcome": res.Outcome.String(), "rejected_at": res.Site}
				})
				if viol {
					r.Fail(t, fmt.Sprintf("C17/%s/%s", l.Name, off), c, "%s", d)
				}
			}
		}
	}
	if rec.Thorough() {
		for _, b := range corp.Names {
			do(b, 1, func(int) []string { return c17OffsetNames })
		}
		r.Exhaustive(true)
	} else {
		do("A1", 0, func(int) []string { return []string{"1"} })
		do("B1", 7, func(p int) []string { return []string{c17OffsetNames[p%4]} })
		for _, b := range []string{"A2", "B2", "B3"} {
			do(b, 23, func(p int) []string { return []string{c17OffsetNames[(p/23)%4]} })
		}
	}
	// one position of every Goldilocks leaf kind on the circuit compiled for the deployed backend
	if rec.ShardIdx() == 7%rec.NShards() || rec.Thorough() && rec.ShardIdx() == 8%rec.NShards() {
		base := "A1"
		if rec.ShardIdx() != 7%rec.NShards() {
			base = "B1"
		}
		rn := getRunner(base, 1)
		seen := map[string]int{}
		quickKinds := map[string]bool{"Proof_Openings_Wires": true, "Proof_Openings_PlonkZsNext": true, "Proof_Openings_QuotientPolys": true, "Proof_OpeningProof_PowWitness": true, "Proof_OpeningProof_FinalPoly_Coeffs": true,
			"Proof_OpeningProof_QueryRoundProofs_InitialTreesProof_EvalsProofs[0]_Elements": true, "Proof_OpeningProof_QueryRoundProofs_InitialTreesProof_EvalsProofs[3]_Elements": true, "Proof_OpeningProof_QueryRoundProofs_Steps[1]_Evals": true}
		for _, l := range rn.leaves {
			if !c17Eligible(l.Name) || seen[l.Kind] >= 1 || (!rec.Thorough() && !quickKinds[l.Kind]) {
				continue
			}
			seen[l.Kind]++
			off := c17OffsetNames[len(seen)%3]
			c := c17Case{Base: base, K: 1, Leaf: l.Name, Off: off, Backend: "r1cs"}
			viol, d, res := c17Run(c)
			r.Case("compiled-r1cs-commit/"+l.Kind, true, fmt.Sprint(c), func() any {
				return map[string]any{"case": c, "solver": res.Outcome.String(), "error": res.Msg}
			})
			if viol {
				r.Fail(t, fmt.Sprintf("C17/compiled/%s/%s", l.Name, off), c, "%s", d)
			}
		}
	}
	r.Extra("rejecting_sites", sites)
	r.Done()
}

package props

import (
	"encoding/json"
	"fmt"
	"os"
	"path/filepath"
	"strings"
	"testing"

	"pgregory.net/rapid"
)

// seedCorpus adds pseudo-random byte strings long enough for rapid to decode complete cases.
func seedCorpus(f *testing.F) {
	x := uint64(0x9e3779b97f4a7c15)
	for k := 0; k < 12; k++ {
		b := make([]byte, 1<<uint(10+k%5))
		for i := range b {
			x ^= x << 13
			x ^= x >> 7
			x ^= x << 17
			b[i] = byte(x >> 32)
		}
		f.Add(b)
	}
}

// fuzzCounter counts cases that reached the oracle, per worker process, for the evidence file.
type fuzzCounter struct{ n int }

func (c *fuzzCounter) hit(prop string) {
	c.n++
	if c.n%200 == 0 {
		if out := os.Getenv("VERIF_OUT"); out != "" {
			os.WriteFile(filepath.Join(out, fmt.Sprintf("fuzzcount.%s.%d", prop, os.Getpid())), []byte(fmt.Sprint(c.n)), 0o644)
		}
	}
}

// Native coverage-guided fuzzing (thorough tier only) of the two parser-like properties,
// through rapid.MakeFuzz so that the byte string is decoded by the same structured generators
// as the rapid runs.  A violating case writes the ordinary JSON replay file (suite.exec ->
// rec.Fail -> Flush) before the fuzz worker fails, so the driver can report it like any other.

func FuzzC18(f *testing.F) {
	s := newSuite("C18")
	s.on("supported", func(b json.RawMessage) caseResult { return c18Supported(unmarshal[c18Sup](b)) })
	s.on("unsupported", func(b json.RawMessage) caseResult { return c18Unsupported(unmarshal[string](b)) })
	seedCorpus(f)
	var cnt fuzzCounter
	f.Fuzz(rapid.MakeFuzz(func(rt *rapid.T) {
		defer func() {
			if s.r.HasFail() {
				s.r.Flush() // writes the JSON replay file of the violating case
			}
		}()
		defer cnt.hit("C18")
		if rapid.Bool().Draw(rt, "supported") {
			typ := rapid.SampledFrom(gateTypes[:2]).Draw(rt, "t0")
			if rapid.IntRange(0, 9).Draw(rt, "param") != 0 {
				typ = rapid.SampledFrom(gateTypes[3:]).Draw(rt, "type") // skip the expensive Poseidon gate
			}
			g := genGateSpec(typ).Draw(rt, "gate")
			w, c, pi := genRowRandom(rt, wiresNeeded(g)+2, gateRowConsts)
			for len(w) < gateRowWires {
				w = append(w, [2]uint64{1, 2})
			}
			s.exec(rt, "supported", c18Sup{Gate: g, W: w, C: c, PI: pi}, "fuzz/supported/"+typ)
		} else {
			id := genUnsupportedId().Draw(rt, "id")
			s.exec(rt, "unsupported", id, "fuzz/unsupported/"+strings.SplitN(id, " ", 2)[0])
		}
	}))
}

func FuzzC19(f *testing.F) {
	s := newSuite("C19")
	s.on("faithful", func(b json.RawMessage) caseResult { return c19Faithful(unmarshal[c19Doc](b)) })
	marshal := func(v any) json.RawMessage { b, _ := json.Marshal(v); return b }
	seedCorpus(f)
	var cnt fuzzCounter
	f.Fuzz(rapid.MakeFuzz(func(rt *rapid.T) {
		defer func() {
			if s.r.HasFail() {
				s.r.Flush() // writes the JSON replay file of the violating case
			}
		}()
		defer cnt.hit("C19")
		m := genDoc(rt)
		s.exec(rt, "faithful", c19Doc{marshal(m.Proof), marshal(m.VData), kvStrings(m.Leaves), m.PIs}, "fuzz/faithful")
	}))
}

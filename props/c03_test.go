package props

import (
	"fmt"
	"math/big"
	"strings"
	"testing"

	"verif/cs"
	"verif/eng"
	"verif/rec"
	"verif/wv"

	"github.com/consensys/gnark/constraint/solver"
	"github.com/consensys/gnark/frontend"
	"pgregory.net/rapid"
)

// C03 On-chain public inputs bind exactly the plonky2 public inputs.
//
// Domain: 4-input wrapper (CircuitFixed) on circuit-A instances x 16-limb vectors x 4 public
// values.  Oracle: ACCEPT <=> limbs equal the proof's public inputs as integers AND the public
// values are their big-endian 32-bit packing (hence < 2^128).

type c03Case struct {
	Base  string   `json:"base"`
	K     int      `json:"k"`
	Limbs []string `json:"limbs"`  // 16 limb values supplied as ProofWithPis.PublicInputs
	V     []string `json:"values"` // 4 public values
	Mode  int      `json:"mode"`
	// Backend "r1cs": the wrapper is compiled with gnark's R1CS builder (commit range checker: the
	// deployed configuration) and the assignment is handed to gnark's solver
	Backend string `json:"backend,omitempty"`
}

var c03Compiled = map[string]*cs.System{}

func packField(limbs []*big.Int) [4]*big.Int {
	var out [4]*big.Int
	for j := 0; j < 4; j++ {
		acc := new(big.Int)
		for i := 0; i < 4; i++ {
			acc.Lsh(acc, 32)
			acc.Add(acc, limbs[j*4+i])
		}
		out[j] = acc.Mod(acc, bigR)
	}
	return out
}

func c03True(in *wv.Inst) ([]*big.Int, [4]*big.Int) {
	tl := make([]*big.Int, 16)
	for i := range tl {
		tl[i] = bu(in.Raw.PublicInputs[i])
	}
	return tl, wv.PackPublicInputs(in.Raw.PublicInputs)
}

func c03Run(c c03Case) (viol bool, desc string, res eng.Result, expectAccept bool) {
	in := wv.Load(c.Base, c.K)
	tl, tv := c03True(in)
	limbs, V := unstrs(c.Limbs), unstrs(c.V)
	expectAccept = true
	for i := range tl {
		if tl[i].Cmp(limbs[i]) != 0 {
			expectAccept = false
		}
	}
	for j := range tv {
		if tv[j].Cmp(V[j]) != 0 {
			expectAccept = false
		}
	}
	asg := in.FixedAssignment()
	for i := range limbs {
		asg.ProofWithPis.PublicInputs[i].Limb = frontend.Variable(limbs[i])
	}
	for j := range V {
		asg.PublicInputs[j] = frontend.Variable(V[j])
	}
	if c.Backend != "" {
		key := fmt.Sprintf("%s/%d", c.Base, c.K)
		sys := c03Compiled[key]
		if sys == nil {
			var err error
			sys, err = cs.CompileCircuit(cs.R1CS, cs.MechCommit, in.FixedTemplate())
			if err != nil {
				return true, "compile of the wrapper refused: " + err.Error(), res, expectAccept
			}
			c03Compiled[key] = sys
		}
		var hopts []solver.Option
		if !expectAccept {
			hopts = cs.TolerantHints() // dishonest witness: the prover is not bound to the shipped hints
		}
		serr := sys.SolveCircuit(asg, hopts...)
		if (serr == nil) != expectAccept {
			return true, fmt.Sprintf("%s compiled to R1CS: solver says %v for limbs %v values %v, expected accept=%v", in.Name(), serr, c.Limbs, c.V, expectAccept), res, expectAccept
		}
		res.Outcome = eng.Reject
		if serr == nil {
			res.Outcome = eng.Accept
		}
		return false, "", res, expectAccept
	}
	res = eng.Run(in.FixedTemplate(), asg, eng.Options{Mode: eng.Mode(c.Mode)})
	got := res.Outcome == eng.Accept
	if got == expectAccept {
		return false, "", res, expectAccept
	}
	if got && c.Mode == int(eng.ModeNative) {
		if r2 := eng.Run(in.FixedTemplate(), asg, eng.Options{Mode: eng.ModePlain}); r2.Outcome != eng.Accept {
			return false, "native-only accept", res, expectAccept
		}
	}
	if got {
		var diff []string
		for i := range tl {
			if tl[i].Cmp(limbs[i]) != 0 {
				k := new(big.Int).Sub(limbs[i], tl[i])
				if new(big.Int).Mod(k, bigP).Sign() == 0 {
					diff = append(diff, fmt.Sprintf("limb %d = true + %s*p", i, k.Div(k, bigP)))
				} else {
					diff = append(diff, fmt.Sprintf("limb %d = %s", i, limbs[i]))
				}
			}
		}
		return true, fmt.Sprintf("%s: wrapper ACCEPTS public values %v for limbs that are not the proof's public inputs (%s)", in.Name(), c.V, strings.Join(diff, "; ")), res, expectAccept
	}
	return true, fmt.Sprintf("%s: wrapper does not accept the true limbs with their packing: %s", in.Name(), fmtRes(res)), res, expectAccept
}

// c03Monitor runs the wrapper once under the bound monitor: the packing equalities must be
// wrap-free (both sides < r for every admissible limb value) and bounded by 2^128.
func c03Monitor(base string) (viol []string, info map[string]any) {
	in := wv.Load(base, 1)
	mon := eng.NewMonitor()
	res := eng.Run(in.FixedTemplate(), in.FixedAssignment(), eng.Options{Mode: eng.ModeNative, Mon: mon})
	if res.Outcome != eng.Accept {
		return []string{"monitored honest run not accepted: " + fmtRes(res)}, nil
	}
	mon.Finish()
	info = map[string]any{}
	for _, o := range mon.Sorted() {
		if o.Kind != "equality" || !strings.HasPrefix(o.Site, "verifier.(*CircuitFixed)") {
			continue
		}
		info[o.Site] = map[string]any{"instances": o.Count, "lhs_bound_bits": o.MaxL.BitLen(), "rhs_bound_bits": o.MaxR.BitLen()}
		if o.Viol > 0 {
			viol = append(viol, fmt.Sprintf("packing equality at %s can wrap around r: rhs bound 2^%d (limbs are not width-checked)", o.Site, o.MaxR.BitLen()))
		} else if o.MaxR.BitLen() > 128 || o.MaxL.BitLen() > 254 {
			viol = append(viol, fmt.Sprintf("packed value at %s is not bounded by 2^128 (bound 2^%d)", o.Site, o.MaxR.BitLen()))
		}
	}
	if len(info) == 0 {
		viol = append(viol, "no packing equality observed in CircuitFixed.Define")
	}
	return viol, info
}

func TestC03(t *testing.T) {
	r := rec.New("C03")
	defer r.Flush()
	r.Rule("CircuitFixed built as cmd/compile.go builds it from a circuit-A instance restricted to k in {1,2} query rounds; generated assignments: limb vectors = true limbs with 0..4 limbs replaced by limb+k*p (k in 1..4, up to the largest k keeping the value < r, and random k), by arbitrary 64-bit values, or by values >= 2^64; public values = the field packing of the supplied limbs, the packing of the true limbs, random 128-bit or random field values.  Oracle: ACCEPT <=> limbs == true limbs (integers) and values == big-endian packing of the true limbs.  One bound-monitored execution additionally requires the packing equalities to be wrap-free for all admissible limb values and bounded by 2^128.  Non-trivial = limbs or values differ from the true ones; distinct = (limbs, values).")
	r.Assume("Solidity side (secondHash: truncation of values 2 and 3 to 128 bits) is modelled natively from the contract source, not executed on an EVM", "engine semantics (C06)")

	var rp c03Case
	if is, err := rec.LoadReplay(&rp); is {
		if err != nil {
			r.Infra(t, "replay: %v", err)
		}
		if rp.Limbs == nil && rp.V == nil && rp.Backend == "" {
			// replay of a bound-monitor finding (no assignment involved)
			viol, _ := c03Monitor(rp.Base)
			r.Case("replay", true, fmt.Sprint(rp), func() any { return rp })
			if len(viol) > 0 {
				r.Fail(t, "C03/packing-wrap-free", rp, "%s", strings.Join(viol, "; "))
			}
			r.Done()
			return
		}
		v, d, _, _ := c03Run(rp)
		r.Case("replay", true, fmt.Sprint(rp), func() any { return rp })
		if v {
			r.Fail(t, "C03/accept-iff", rp, "%s", d)
		}
		r.Done()
		return
	}

	if rec.Mine(0) {
		viol, info := c03Monitor("A1")
		r.Case("monitor/packing-equalities", true, "monitor/A1", func() any { return info })
		r.Extra("monitor_packing", info)
		if len(viol) > 0 {
			r.Fail(t, "C03/packing-wrap-free", c03Case{Base: "A1", K: 1}, "%s", strings.Join(viol, "; "))
		}
	}

	// the same relation on the wrapper compiled for Groth16 (R1CS, commit checker), one shard
	if rec.Mine(3) {
		in := wv.Load("A1", 1)
		tl, tv := c03True(in)
		cases := []struct {
			what  string
			limbs []*big.Int
			v     [4]*big.Int
		}{{"true limbs and packing", tl, tv}}
		for _, i := range []int{0, 6, 15} {
			l := append([]*big.Int{}, tl...)
			l[i] = new(big.Int).Add(tl[i], bigP)
			cases = append(cases, struct {
				what  string
				limbs []*big.Int
				v     [4]*big.Int
			}{fmt.Sprintf("limb %d + p with matching packing", i), l, packField(l)})
		}
		v2 := tv
		v2[1] = new(big.Int).Add(tv[1], big.NewInt(1))
		cases = append(cases, struct {
			what  string
			limbs []*big.Int
			v     [4]*big.Int
		}{"true limbs, value 1 off by one", tl, v2})
		for _, cse := range cases {
			c := c03Case{Base: "A1", K: 1, Limbs: strs(cse.limbs), V: strs(cse.v[:]), Backend: "r1cs"}
			viol, d, res, exp := c03Run(c)
			what := cse.what
			r.Case("compiled-r1cs/"+what, true, fmt.Sprint(c.Limbs, c.V, "r1cs"), func() any {
				return map[string]any{"what": what, "expected_accept": exp, "solver": res.Outcome.String()}
			})
			if viol {
				r.Fail(t, "C03/compiled-r1cs", c, "%s", d)
			}
		}
	}

	kmaxFor := func(v *big.Int) *big.Int {
		k := new(big.Int).Sub(bigR, big.NewInt(1))
		k.Sub(k, v)
		return k.Div(k, bigP)
	}
	rapidCheck(t, "wrapper", tierN(330, 12000), func(rt *rapid.T) {
		base := rapid.SampledFrom([]string{"A1", "A2"}).Draw(rt, "base")
		k := rapid.SampledFrom([]int{1, 1, 2}).Draw(rt, "k")
		in := wv.Load(base, k)
		tl, tv := c03True(in)
		limbs := make([]*big.Int, 16)
		copy(limbs, tl)
		class := "true-limbs"
		nAlt := rapid.SampledFrom([]int{0, 1, 1, 1, 2, 4}).Draw(rt, "altered")
		for a := 0; a < nAlt; a++ {
			i := rapid.IntRange(0, 15).Draw(rt, "limb")
			switch rapid.IntRange(0, 5).Draw(rt, "how") {
			case 0, 1, 2:
				var kk *big.Int
				switch rapid.IntRange(0, 2).Draw(rt, "kkind") {
				case 0:
					kk = big.NewInt(int64(rapid.IntRange(1, 4).Draw(rt, "k")))
				case 1:
					kk = kmaxFor(tl[i])
				default:
					kk = genBigBelow(kmaxFor(tl[i])).Draw(rt, "k")
					kk.Add(kk, big.NewInt(1))
				}
				limbs[i] = new(big.Int).Add(tl[i], new(big.Int).Mul(kk, bigP))
				class = "congruent-limbs"
			case 3:
				limbs[i] = genBigBelow(pow2(64)).Draw(rt, "v64")
				if class == "true-limbs" {
					class = "other-limbs"
				}
			case 4:
				limbs[i] = genBigBelow(pow2(32)).Draw(rt, "v32")
				if class == "true-limbs" {
					class = "other-limbs"
				}
			default:
				limbs[i] = genBigBelow(bigR).Draw(rt, "vbig")
				if class == "true-limbs" {
					class = "other-limbs"
				}
			}
		}
		var V [4]*big.Int
		vk := rapid.SampledFrom([]string{"pack-supplied", "pack-supplied", "pack-true", "one-random128", "one-randomfield", "one+2^128"}).Draw(rt, "values")
		switch vk {
		case "pack-supplied":
			V = packField(limbs)
		default:
			V = tv
			j := rapid.IntRange(0, 3).Draw(rt, "vj")
			switch vk {
			case "one-random128":
				V[j] = genBigBelow(pow2(128)).Draw(rt, "v")
			case "one-randomfield":
				V[j] = genBigBelow(bigR).Draw(rt, "v")
			case "one+2^128":
				V[j] = new(big.Int).Add(tv[j], pow2(128))
			}
		}
		c := c03Case{Base: base, K: k, Limbs: strs(limbs), V: strs(V[:]), Mode: int(eng.ModeNative)}
		viol, d, res, exp := c03Run(c)
		nt := !exp
		r.Case(class+"/"+vk, nt, fmt.Sprint(c.Limbs, c.V), func() any {
			return map[string]any{"instance": in.Name(), "altered_limbs": nAlt, "values": vk, "expected_accept": exp, "outcome": res.Outcome.String(), "rejected_at": res.Site}
		})
		if viol {
			r.Fail(rt, "C03/accept-iff", c, "%s", d)
		}
	})

	// native packing injectivity (the relation the on-chain side relies on)
	rapidCheck(t, "pack-injective", tierN(2000, 100000), func(rt *rapid.T) {
		a := make([]uint64, 16)
		for i := range a {
			a[i] = uint64(rapid.Uint32().Draw(rt, "a"))
		}
		b := append([]uint64{}, a...)
		i := rapid.IntRange(0, 15).Draw(rt, "i")
		b[i] = uint64(rapid.Uint32().Draw(rt, "b"))
		pa, pb := wv.PackPublicInputs(a), wv.PackPublicInputs(b)
		same := true
		for j := range pa {
			if pa[j].Cmp(pb[j]) != 0 {
				same = false
			}
			if pa[j].BitLen() > 128 {
				rt.Fatalf("pack exceeds 128 bits")
			}
		}
		// model of the contract's secondHash (uint128 truncation of values 2 and 3, concatenated): for
		// values the circuit accepts it must be exactly the big-endian bytes of limbs 8..15, and a value
		// differing by 2^128 (which the circuit must reject, see "one+2^128" above) would alias
		sh := func(v [4]*big.Int) string {
			m := new(big.Int).Sub(pow2(128), big.NewInt(1))
			return fmt.Sprintf("%032x%032x", new(big.Int).And(v[2], m), new(big.Int).And(v[3], m))
		}
		want := ""
		for _, l := range a[8:] {
			want += fmt.Sprintf("%08x", l)
		}
		if sh(pa) != want {
			r.Fail(rt, "C03/contract-model", nil, "secondHash model of the packed values %v is %s, limbs 8..15 are %s", pa, sh(pa), want)
		}
		alias := pa
		alias[2] = new(big.Int).Add(pa[2], pow2(128))
		if sh(alias) != sh(pa) {
			rt.Fatalf("model error: truncation does not alias")
		}
		r.Case("pack-injective", a[i] != b[i], fmt.Sprint(a, b), nil)
		if same != (a[i] == b[i]) {
			r.Fail(rt, "C03/pack-injective", nil, "packing of %v and %v collide", a, b)
		}
	})
	r.Done()
}

package props

import (
	"encoding/json"
	"fmt"
	"math/big"
	"testing"

	"verif/eng"
	"verif/gad"
	"verif/ref"

	"github.com/consensys/gnark/frontend"
	gl "github.com/wormhole-foundation/example-near-light-client/goldilocks"
	"github.com/wormhole-foundation/example-near-light-client/poseidon"
	"pgregory.net/rapid"
)

// C09 In-circuit Goldilocks Poseidon equals plonky2's Poseidon for all inputs.
//
// Oracle: ref's *naive* Poseidon (30 rounds, full MDS, 360 plain round constants) and sponge;
// the circuit uses the optimised partial-round schedule, so agreement is not tautological.
// Functionality (no second output accepted) is decided by hint substitution at every dynamic
// hint call of one permutation.

type c09Perm struct {
	Mode  int      `json:"mode"`
	State []uint64 `json:"state"`
}
type c09Hash struct {
	Mode int      `json:"mode"`
	In   []string `json:"in"` // possibly non-canonical inputs (value + k*p)
	M    int      `json:"m"`  // 0: HashNoPad (reduces inputs, 4 outputs); >0: HashNToMNoPad(canonical inputs, m)
	// Lens: HashNoPad applied in one circuit to the prefixes In[:l] of one backing array, in this order
	Lens []int `json:"prefix_lengths,omitempty"`
}
type c09Inject struct {
	State []uint64  `json:"state"`
	Index int       `json:"hint_index"`
	Subst substJSON `json:"subst"`
	Mode  int       `json:"mode"`
}
type c09Ext struct {
	State [][2]uint64 `json:"state"`
}

func c09PermFn(api frontend.API, in []frontend.Variable) []frontend.Variable {
	var st poseidon.GoldilocksState
	for i := range st {
		st[i] = glv(in[i])
	}
	out := poseidon.NewGoldilocksChip(api).Poseidon(st)
	o := make([]frontend.Variable, 12)
	for i := range o {
		o[i] = out[i].Limb
	}
	return o
}

// extension-field permutation assembled from the chip's exported layer helpers exactly in the
// order the PoseidonGate uses them
func c09ExtFn(api frontend.API, in []frontend.Variable) []frontend.Variable {
	c := poseidon.NewGoldilocksChip(api)
	g := gl.New(api)
	var st poseidon.GoldilocksStateExtension
	for i := range st {
		st[i] = qev(in[2*i], in[2*i+1])
	}
	rc := 0
	for r := 0; r < poseidon.HALF_N_FULL_ROUNDS; r++ {
		st = c.ConstantLayerExtension(st, &rc)
		st = c.SBoxLayerExtension(st)
		st = c.MdsLayerExtension(st)
		rc++
	}
	st = c.PartialFirstConstantLayerExtension(st)
	st = c.MdsPartialLayerInitExtension(st)
	for r := 0; r < poseidon.N_PARTIAL_ROUNDS; r++ {
		st[0] = c.SBoxMonomialExtension(st[0])
		st[0] = g.AddExtension(st[0], gl.NewQuadraticExtensionVariable(gl.NewVariable(poseidon.FAST_PARTIAL_ROUND_CONSTANTS[r]), gl.Zero()))
		st = c.MdsPartialLayerFastExtension(st, r)
	}
	rc += poseidon.N_PARTIAL_ROUNDS
	for r := 0; r < poseidon.HALF_N_FULL_ROUNDS; r++ {
		st = c.ConstantLayerExtension(st, &rc)
		st = c.SBoxLayerExtension(st)
		st = c.MdsLayerExtension(st)
		rc++
	}
	var o []frontend.Variable
	for i := range st {
		o = append(o, st[i][0].Limb, st[i][1].Limb)
	}
	return o
}

func genState() *rapid.Generator[[]uint64] {
	return rapid.Custom(func(t *rapid.T) []uint64 {
		s := make([]uint64, 12)
		switch rapid.IntRange(0, 6).Draw(t, "shape") {
		case 6: // pre-image of an all-edge state under the first constant layer (extreme values inside the first full round)
			e := rapid.SampledFrom(glEdges).Draw(t, "edge")
			for i := range s {
				s[i] = ref.Sub(e, ref.GL.RC[i])
			}
		case 0: // all equal edge
			e := rapid.SampledFrom(glEdges).Draw(t, "edge")
			for i := range s {
				s[i] = e
			}
		case 1: // single hot
			s[rapid.IntRange(0, 11).Draw(t, "hot")] = rapid.SampledFrom(append(glEdges[1:], glEdgesMore...)).Draw(t, "edge")
		default:
			for i := range s {
				s[i] = genGL().Draw(t, "s")
			}
		}
		return s
	})
}

func TestC09(t *testing.T) {
	s := newSuite("C09")
	compiledEvery = 80 // a compiled Poseidon permutation costs ~1 s
	r := s.r
	defer r.Flush()
	r.Rule("permutation: 12-element states (all-equal edge values incl. 0 and p-1, single-hot edge values, random/edge mixtures) vs the naive reference permutation; HashNoPad on inputs of length 0..40 whose elements are canonical or value+k*p (k up to 2^60; inputs are reduced first) vs the reference sponge on the residues; HashNToMNoPad with 1..20 outputs; HashNoPad applied 2-3 times in one circuit to prefixes of one (partly non-canonical) vector held in one backing array - the caller's values must stay what they were; the extension-field layer helpers composed as in the Poseidon gate vs the reference fast schedule over GF(p^2); uniqueness: every dynamic hint call of one permutation (1650) substituted by generated dishonest tuples must be rejected.  A third of the hint calls (thorough: a drawn flavour) are substituted under the bit-decomposition range checker, where a rejected substitution is tried again with gnark's own decomposition hint answering dishonestly (digits = (value,0,..)): it must still be rejected.  Non-trivial = state not all-zero / input length >= 1 / substituted tuple differs; distinct = inputs (+ hint index, strategy).")
	r.Assume("ref naive Poseidon reproduces plonky2's published all-zero vector and is what accepted the 5 real proofs", "engine semantics (C06)")

	s.on("perm", func(b json.RawMessage) caseResult {
		a := unmarshal[c09Perm](b)
		var st [12]ref.F
		copy(st[:], a.State)
		want := ref.PoseidonGL(st)
		cr := expectOutputs("Poseidon", eng.Mode(a.Mode), u64s(a.State), c09PermFn, u64s(want[:]))
		nz := false
		for _, x := range a.State {
			if x != 0 {
				nz = true
			}
		}
		cr.Trivial = !nz
		return cr
	})
	s.on("prefixes", func(b json.RawMessage) caseResult {
		a := unmarshal[c09Hash](b)
		in := unstrs(a.In)
		res := make([]ref.F, len(in))
		for i, x := range in {
			res[i] = ref.FromBig(x)
		}
		var want []*big.Int
		for _, l := range a.Lens {
			h := ref.HashNoPadGL(res[:l])
			want = append(want, u64s(h[:])...)
		}
		fn := func(api frontend.API, v []frontend.Variable) []frontend.Variable {
			c := poseidon.NewGoldilocksChip(api)
			xs := make([]gl.Variable, len(v))
			for i := range v {
				xs[i] = glv(v[i])
			}
			var o []frontend.Variable
			for _, l := range a.Lens {
				h := c.HashNoPad(xs[:l])
				for i := range h {
					o = append(o, h[i].Limb)
				}
			}
			return o
		}
		return expectOutputsEng(fmt.Sprintf("HashNoPad on prefixes %v of one vector", a.Lens), eng.Mode(a.Mode), in, fn, want)
	})
	s.on("hash", func(b json.RawMessage) caseResult {
		a := unmarshal[c09Hash](b)
		in := unstrs(a.In)
		res := make([]ref.F, len(in))
		for i, x := range in {
			res[i] = ref.FromBig(x)
		}
		var want []ref.F
		m := a.M
		if m == 0 {
			h := ref.HashNoPadGL(res)
			want = h[:]
		} else {
			want = ref.HashNToMNoPad(res, m)
		}
		fn := func(api frontend.API, v []frontend.Variable) []frontend.Variable {
			c := poseidon.NewGoldilocksChip(api)
			xs := make([]gl.Variable, len(v))
			for i := range v {
				xs[i] = glv(v[i])
			}
			var out []gl.Variable
			if m == 0 {
				h := c.HashNoPad(xs)
				out = h[:]
			} else {
				out = c.HashNToMNoPad(xs, m)
			}
			o := make([]frontend.Variable, len(out))
			for i := range out {
				o[i] = out[i].Limb
			}
			return o
		}
		cr := expectOutputs(fmt.Sprintf("Hash[m=%d,len=%d]", m, len(in)), eng.Mode(a.Mode), in, fn, u64s(want))
		cr.Trivial = len(in) == 0
		return cr
	})
	s.on("ext", func(b json.RawMessage) caseResult {
		a := unmarshal[c09Ext](b)
		var st [12]ref.E
		var in []*big.Int
		for i := range st {
			st[i] = ref.E{a.State[i][0], a.State[i][1]}
			in = append(in, bu(st[i][0]), bu(st[i][1]))
		}
		want := ref.PoseidonFastE(st)
		return expectOutputs("ExtensionLayers", eng.ModeNative, in, c09ExtFn, flatE(want[:]))
	})
	s.on("inject", func(b json.RawMessage) caseResult {
		a := unmarshal[c09Inject](b)
		res, _ := gad.Run(eng.Options{Mode: eng.Mode(a.Mode), Plan: eng.Plan{a.Index: a.Subst.subst()}}, u64s(a.State), c09PermFn)
		if len(res.Injected) == 0 || !res.Injected[0].Differs {
			return caseResult{Trivial: true}
		}
		inj := res.Injected[0]
		if res.Outcome == eng.Accept {
			return caseResult{Viol: "second-output/" + inj.Kind.String() + "/" + a.Subst.Strategy, Desc: fmt.Sprintf("Poseidon(%v): %s hint #%d (%s) outputs %v replaced by %v and the permutation is ACCEPTED (a second output exists)", a.State, inj.Kind, a.Index, inj.Caller, inj.Honest, inj.Subst)}
		}
		if eng.Mode(a.Mode) == eng.ModePlain {
			// bit-decomposition flavour: the prover also answers gnark's own decomposition hint
			r2, _ := gad.Run(eng.Options{Mode: eng.ModePlain, LumpBits: true, Plan: eng.Plan{a.Index: a.Subst.subst()}}, u64s(a.State), c09PermFn)
			if r2.Outcome == eng.Accept {
				return caseResult{Viol: "second-output-lumped-bits/" + inj.Kind.String() + "/" + a.Subst.Strategy, Desc: fmt.Sprintf("Poseidon(%v), bit-decomposition range checks: %s hint #%d (%s) outputs %v replaced by %v is ACCEPTED when the bit-decomposition hint also answers dishonestly (digits = (value,0,..)): a second output exists", a.State, inj.Kind, a.Index, inj.Caller, inj.Honest, inj.Subst)}
			}
		}
		return caseResult{Info: map[string]any{"hint": inj.Kind.String(), "rejected_at": res.Site}}
	})
	if s.replay(t) {
		return
	}

	// KAT states first (deterministic)
	if r := 0; r == 0 {
		for i, st := range [][]uint64{make([]uint64, 12), {ref.P - 1, ref.P - 1, ref.P - 1, ref.P - 1, ref.P - 1, ref.P - 1, ref.P - 1, ref.P - 1, ref.P - 1, ref.P - 1, ref.P - 1, ref.P - 1}, {0, 1, 2, 3, 4, 5, 6, 7, 8, 9, 10, 11}} {
			for _, m := range []eng.Mode{eng.ModeNative, eng.ModePlain} {
				s.exec(t, "perm", c09Perm{int(m), st}, fmt.Sprintf("perm/kat%d", i))
			}
		}
	}
	rapidCheck(t, "perm", tierN(800, 40000), func(rt *rapid.T) {
		s.exec(rt, "perm", c09Perm{int(genMode().Draw(rt, "mode")), genState().Draw(rt, "state")}, "perm/generated")
	})
	rapidCheck(t, "hash", tierN(600, 20000), func(rt *rapid.T) {
		n := rapid.IntRange(0, 40).Draw(rt, "len")
		m := 0
		if rapid.Bool().Draw(rt, "ntom") {
			m = rapid.IntRange(1, 20).Draw(rt, "m")
		}
		in := make([]string, n)
		nonc := false
		for i := range in {
			x := bu(genGL().Draw(rt, "x"))
			if m == 0 && rapid.IntRange(0, 3).Draw(rt, "noncanon") == 0 {
				k := genBigBelow(pow2(60)).Draw(rt, "k")
				k.Add(k, big.NewInt(1))
				if rapid.IntRange(0, 2).Draw(rt, "smallk") == 0 {
					k = big.NewInt(int64(rapid.IntRange(1, 3).Draw(rt, "k123"))) // residue + p may still fit 64 bits
				}
				x.Add(x, k.Mul(k, bigP))
				nonc = true
			}
			in[i] = x.String()
		}
		class := "hash/HashNoPad"
		if m > 0 {
			class = "hash/HashNToMNoPad"
		} else if nonc {
			class += "/noncanonical-inputs"
		}
		s.exec(rt, "hash", c09Hash{Mode: int(genMode().Draw(rt, "mode")), In: in, M: m}, class)
	})
	rapidCheck(t, "prefixes", tierN(120, 3000), func(rt *rapid.T) {
		n := rapid.IntRange(2, 20).Draw(rt, "len")
		in := make([]string, n)
		for i := range in {
			x := bu(genGL().Draw(rt, "x"))
			if rapid.IntRange(0, 3).Draw(rt, "noncanon") == 0 {
				x.Add(x, new(big.Int).Mul(bigP, big.NewInt(int64(rapid.IntRange(1, 3).Draw(rt, "k")))))
			}
			in[i] = x.String()
		}
		lens := make([]int, rapid.IntRange(2, 3).Draw(rt, "calls"))
		for i := range lens {
			lens[i] = rapid.IntRange(0, n).Draw(rt, "prefix")
		}
		s.exec(rt, "prefixes", c09Hash{Mode: int(genMode().Draw(rt, "mode")), In: in, Lens: lens}, "hash/prefixes-of-one-vector")
	})
	rapidCheck(t, "ext", tierN(150, 4000), func(rt *rapid.T) {
		st := make([][2]uint64, 12)
		for i := range st {
			e := genE().Draw(rt, "e")
			st[i] = [2]uint64{e[0], e[1]}
		}
		s.exec(rt, "ext", c09Ext{st}, "extension-layers")
	})
	nh := 0
	{
		res, _ := gad.Run(eng.Options{Mode: eng.ModeNative}, u64s(make([]uint64, 12)), c09PermFn)
		nh = res.NHints
	}
	r.Extra("hint_calls_per_permutation", fmt.Sprint(nh))
	if !rec_thorough() {
		// every dynamic hint call once with a rotating strategy, on a generated state
		for idx := 0; idx < nh; idx++ {
			if !mine(idx) {
				continue
			}
			idx := idx
			setRapid(fmt.Sprintf("inject/%d", idx), 1)
			rapid.Check(t, func(rt *rapid.T) {
				st := genState().Draw(rt, "state")
				kind := c05KindAt(c05FindGadget("Poseidon"), idx)
				sub := genSubst(kind).Draw(rt, "subst")
				mode, cls := eng.ModeNative, "inject/"
				if idx%3 == 1 {
					mode, cls = eng.ModePlain, "inject-bitdecomp/"
				}
				s.exec(rt, "inject", c09Inject{st, idx, toSubstJSON(sub), int(mode)}, cls+kind.String())
			})
		}
	} else {
		rapidCheck(t, "inject", 60000, func(rt *rapid.T) {
			st := genState().Draw(rt, "state")
			idx := rapid.IntRange(0, nh-1).Draw(rt, "hint")
			kind := c05KindAt(c05FindGadget("Poseidon"), idx)
			sub := genSubst(kind).Draw(rt, "subst")
			s.exec(rt, "inject", c09Inject{st, idx, toSubstJSON(sub), int(genMode().Draw(rt, "mode"))}, "inject/"+kind.String())
		})
	}
	r.Done()
}

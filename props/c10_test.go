package props

import (
	"encoding/json"
	"fmt"
	"math/big"
	"strings"
	"testing"

	"verif/cs"
	"verif/eng"
	"verif/gad"
	"verif/ref"

	"github.com/consensys/gnark-crypto/ecc/bn254/fr"
	"github.com/consensys/gnark/constraint/solver"
	"github.com/consensys/gnark/frontend"
	gl "github.com/wormhole-foundation/example-near-light-client/goldilocks"
	"github.com/wormhole-foundation/example-near-light-client/poseidon"
	"pgregory.net/rapid"
)

// C10 BN254 Poseidon hashing and hash/field conversions are exact and collision-free.

type c10Case struct {
	Op   string   `json:"op"` // perm | hashnopad | hashornoop | twotoone | tovec | inj-pack | inj-chunks
	Mode int      `json:"mode"`
	In   []string `json:"in"`
	In2  []string `json:"in2,omitempty"`
	// Lens: the op is applied, in one circuit and in this order, to the prefixes In[:l] taken as Go
	// sub-slices of ONE backing array (spare capacity behind every prefix), as a caller hashing parts of
	// a longer vector does; every digest must equal the reference digest of the caller's values
	Lens []int `json:"prefix_lengths,omitempty"`
}

func frOf(b *big.Int) fr.Element  { var e fr.Element; e.SetBigInt(b); return e }
func bigOf(e fr.Element) *big.Int { var b big.Int; e.BigInt(&b); return &b }

func glvs(v []frontend.Variable) []gl.Variable {
	o := make([]gl.Variable, len(v))
	for i := range v {
		o[i] = glv(v[i])
	}
	return o
}
func limbs(v []gl.Variable) []frontend.Variable {
	o := make([]frontend.Variable, len(v))
	for i := range v {
		o[i] = v[i].Limb
	}
	return o
}

func c10Fn(op string) gad.Fn {
	return func(api frontend.API, in []frontend.Variable) []frontend.Variable {
		c := poseidon.NewBN254Chip(api)
		switch op {
		case "perm":
			out := c.Poseidon(poseidon.BN254State{in[0], in[1], in[2], in[3]})
			return out[:]
		case "hashnopad":
			return []frontend.Variable{c.HashNoPad(glvs(in))}
		case "hashornoop":
			return []frontend.Variable{c.HashOrNoop(glvs(in))}
		case "twotoone":
			return []frontend.Variable{c.TwoToOne(in[0], in[1])}
		case "tovec":
			return limbs(c.ToVec(in[0]))
		}
		panic("bad op")
	}
}

func toF(xs []*big.Int) []ref.F {
	o := make([]ref.F, len(xs))
	for i, x := range xs {
		o[i] = x.Uint64()
	}
	return o
}

func c10Ref(op string, in []*big.Int) []*big.Int {
	switch op {
	case "perm":
		out := ref.PoseidonBN([4]fr.Element{frOf(in[0]), frOf(in[1]), frOf(in[2]), frOf(in[3])})
		return []*big.Int{bigOf(out[0]), bigOf(out[1]), bigOf(out[2]), bigOf(out[3])}
	case "hashnopad":
		return []*big.Int{bigOf(ref.HashNoPadBN(toF(in)))}
	case "hashornoop":
		return []*big.Int{bigOf(ref.HashOrNoopBN(toF(in)))}
	case "twotoone":
		return []*big.Int{bigOf(ref.TwoToOneBN(frOf(in[0]), frOf(in[1])))}
	case "tovec":
		return u64s(ref.HashToVec(frOf(in[0])))
	}
	panic("bad op")
}

func genHashVal() *rapid.Generator[*big.Int] {
	return rapid.Custom(func(t *rapid.T) *big.Int {
		rm1 := new(big.Int).Sub(bigR, big.NewInt(1))
		switch rapid.IntRange(0, 6).Draw(t, "hkind") {
		case 0:
			return rapid.SampledFrom([]*big.Int{big.NewInt(0), big.NewInt(1), rm1, new(big.Int).Sub(rm1, big.NewInt(1)), new(big.Int).Sub(pow2(254), bigR), new(big.Int).Sub(new(big.Int).Sub(pow2(254), bigR), big.NewInt(1)), pow2(56), new(big.Int).Sub(pow2(56), big.NewInt(1)), pow2(224), pow2(253)}).Draw(t, "edge")
		case 1:
			return genBigBelow(new(big.Int).Sub(pow2(254), bigR)).Draw(t, "low")
		default:
			return genBigBelow(bigR).Draw(t, "h")
		}
	})
}

var (
	c10Sys  = map[string]*cs.System{}
	nBitsFn solver.Hint
)

func findNBits() solver.Hint {
	if nBitsFn != nil {
		return nBitsFn
	}
	for _, h := range solver.GetRegisteredHints() {
		if strings.HasSuffix(solver.GetHintName(h), "bits.nBits") || strings.HasSuffix(solver.GetHintName(h), "bits.NBits") {
			nBitsFn = h
		}
	}
	return nBitsFn
}

func TestC10(t *testing.T) {
	s := newSuite("C10")
	r := s.r
	defer r.Flush()
	r.Rule("BN254 permutation on 4-element states (edges 0,1,r-1 in every slot and random); HashNoPad / HashOrNoop on canonical Goldilocks inputs of length 0..30 (covering the <=3 shortcut, the 9-element absorption boundary, partial last chunks); TwoToOne on random/edge hashes; ToVec on hash values incl. 0, r-1, 2^254-r-1 and random -- all compared with the reference PoseidonBN128 (validated on the iden3 vector and ~13k real Merkle/leaf permutations).  HashNoPad / HashOrNoop applied 2-4 times in one circuit to prefixes of one vector held in one backing array (every digest must equal the reference digest of the caller's values).  Injectivity as two-input properties evaluated in the circuit: equal-length canonical inputs of length <=3 differing in one element give different HashOrNoop values; different hash values give different ToVec vectors.  On compiled R1CS and SCS the bit-decomposition hint of ToVec is overridden with the bits of hash+r (when that fits 254 bits) and must be rejected.  Non-trivial = non-zero input; distinct = (op, inputs).")
	r.Assume("the BN254 reference uses the same optimised iden3 schedule with frozen constants; its independence rests on the KAT and real-proof Merkle paths")

	s.on("eq", func(b json.RawMessage) caseResult {
		a := unmarshal[c10Case](b)
		in := unstrs(a.In)
		cr := expectOutputs(a.Op, eng.Mode(a.Mode), in, c10Fn(a.Op), c10Ref(a.Op, in))
		nz := false
		for _, x := range in {
			if x.Sign() != 0 {
				nz = true
			}
		}
		cr.Trivial = !nz
		return cr
	})
	s.on("prefixes", func(b json.RawMessage) caseResult {
		a := unmarshal[c10Case](b)
		in := unstrs(a.In)
		fn := func(api frontend.API, v []frontend.Variable) []frontend.Variable {
			c := poseidon.NewBN254Chip(api)
			xs := glvs(v)
			var o []frontend.Variable
			for _, l := range a.Lens {
				if a.Op == "hashnopad" {
					o = append(o, c.HashNoPad(xs[:l]))
				} else {
					o = append(o, c.HashOrNoop(xs[:l]))
				}
			}
			return o
		}
		var want []*big.Int
		for _, l := range a.Lens {
			want = append(want, c10Ref(a.Op, in[:l])...)
		}
		cr := expectOutputsEng(fmt.Sprintf("%s on prefixes %v of one vector", a.Op, a.Lens), eng.Mode(a.Mode), in, fn, want)
		return cr
	})
	s.on("inj", func(b json.RawMessage) caseResult {
		a := unmarshal[c10Case](b)
		in1, in2 := unstrs(a.In), unstrs(a.In2)
		same := len(in1) == len(in2)
		if same {
			for i := range in1 {
				if in1[i].Cmp(in2[i]) != 0 {
					same = false
				}
			}
		}
		if same {
			return caseResult{Trivial: true}
		}
		op := "hashornoop"
		if a.Op == "inj-chunks" {
			op = "tovec"
		}
		r1, o1 := gad.Run(eng.Options{Mode: eng.Mode(a.Mode)}, in1, c10Fn(op))
		r2, o2 := gad.Run(eng.Options{Mode: eng.Mode(a.Mode)}, in2, c10Fn(op))
		if r1.Outcome != eng.Accept || r2.Outcome != eng.Accept {
			return caseResult{Viol: a.Op + "/not-accepted", Desc: fmt.Sprintf("%s on %v / %v: %s / %s", op, a.In, a.In2, fmtRes(r1), fmtRes(r2))}
		}
		eq := len(o1) == len(o2)
		if eq {
			for i := range o1 {
				if o1[i].Cmp(o2[i]) != 0 {
					eq = false
				}
			}
		}
		if eq {
			return caseResult{Viol: a.Op + "/collision", Desc: fmt.Sprintf("%s maps the distinct inputs %v and %v to the same value %v", op, a.In, a.In2, o1)}
		}
		return caseResult{}
	})
	s.on("tovec-dishonest", func(b json.RawMessage) caseResult {
		a := unmarshal[c10Case](b)
		h := bs(a.In[0])
		alt := new(big.Int).Add(h, bigR)
		if alt.BitLen() > 254 {
			return caseResult{Trivial: true}
		}
		kind := cs.R1CS
		if a.Op == "scs" {
			kind = cs.SCS
		}
		sys := c10Sys[a.Op]
		if sys == nil {
			var err error
			sys, err = cs.Compile(kind, cs.MechNative, 1, 5, c10Fn("tovec"))
			if err != nil {
				return caseResult{Viol: "tovec/compile", Desc: err.Error()}
			}
			c10Sys[a.Op] = sys
		}
		nb := findNBits()
		if nb == nil {
			return caseResult{Viol: "infra/nbits-hint-not-found", Desc: "gnark bit decomposition hint not registered"}
		}
		// the chunks a dishonest decomposition of h+r would yield
		altChunks := make([]*big.Int, 5)
		mask := new(big.Int).Sub(pow2(56), big.NewInt(1))
		for i := range altChunks {
			altChunks[i] = new(big.Int).And(new(big.Int).Rsh(alt, uint(56*i)), mask)
		}
		override := func(q *big.Int, in, out []*big.Int) error {
			for i := range out {
				out[i].SetUint64(uint64(alt.Bit(i)))
			}
			return nil
		}
		honest := sys.Solve([]*big.Int{h}, c10Ref("tovec", []*big.Int{h}))
		if honest != nil {
			return caseResult{Viol: "tovec/honest-rejected-" + a.Op, Desc: fmt.Sprintf("compiled %s ToVec(%s) rejects the honest decomposition: %v", a.Op, h, honest)}
		}
		if err := sys.Solve([]*big.Int{h}, altChunks, solver.OverrideHint(solver.GetHintID(nb), override)); err == nil {
			return caseResult{Viol: "tovec/non-unique-" + a.Op, Desc: fmt.Sprintf("compiled %s ToVec(%s) also accepts the chunks of hash+r: %v", a.Op, h, altChunks)}
		}
		return caseResult{}
	})
	if s.replay(t) {
		return
	}

	rm1 := new(big.Int).Sub(bigR, big.NewInt(1))
	edgesR := []*big.Int{big.NewInt(0), big.NewInt(1), rm1}
	i := 0
	for _, a := range edgesR {
		for _, b := range edgesR {
			for _, c := range edgesR {
				for _, d := range edgesR {
					i++
					if mine(i) {
						s.exec(t, "eq", c10Case{Op: "perm", Mode: int(eng.ModeNative), In: strs([]*big.Int{a, b, c, d})}, "perm/edges")
					}
				}
			}
		}
	}
	s.exec(t, "eq", c10Case{Op: "perm", Mode: int(eng.ModePlain), In: []string{"0", "1", "2", "3"}}, "perm/kat")
	rapidCheck(t, "eq", tierN(18000, 120000), func(rt *rapid.T) {
		op := rapid.SampledFrom([]string{"perm", "hashnopad", "hashnopad", "hashornoop", "hashornoop", "twotoone", "tovec"}).Draw(rt, "op")
		var in []*big.Int
		switch op {
		case "perm":
			for k := 0; k < 4; k++ {
				in = append(in, genHashVal().Draw(rt, "s"))
			}
		case "hashnopad", "hashornoop":
			n := rapid.IntRange(0, 30).Draw(rt, "len")
			if rapid.IntRange(0, 3).Draw(rt, "short") == 0 {
				n = rapid.SampledFrom([]int{0, 1, 2, 3, 4, 8, 9, 10, 17, 18, 19, 27}).Draw(rt, "boundarylen")
			}
			for k := 0; k < n; k++ {
				in = append(in, bu(genGL().Draw(rt, "x")))
			}
		case "twotoone":
			in = []*big.Int{genHashVal().Draw(rt, "l"), genHashVal().Draw(rt, "r")}
		case "tovec":
			in = []*big.Int{genHashVal().Draw(rt, "h")}
		}
		class := op
		if op == "hashnopad" || op == "hashornoop" {
			class = fmt.Sprintf("%s/len%%9=%d", op, len(in)%9)
			if len(in) <= 3 {
				class = op + "/len<=3"
			}
		}
		s.exec(rt, "eq", c10Case{Op: op, Mode: int(genMode().Draw(rt, "mode")), In: strs(in)}, class)
	})
	rapidCheck(t, "prefixes", tierN(1800, 15000), func(rt *rapid.T) {
		op := rapid.SampledFrom([]string{"hashnopad", "hashornoop"}).Draw(rt, "op")
		n := rapid.IntRange(2, 24).Draw(rt, "len")
		var in []*big.Int
		for k := 0; k < n; k++ {
			x := genGL().Draw(rt, "x")
			if x == 0 {
				x = uint64(k + 1) // zero padding must not go unnoticed
			}
			in = append(in, bu(x))
		}
		m := rapid.IntRange(2, 4).Draw(rt, "calls")
		lens := make([]int, m)
		for i := range lens {
			lens[i] = rapid.IntRange(0, n).Draw(rt, "prefix")
		}
		s.exec(rt, "prefixes", c10Case{Op: op, Mode: int(genMode().Draw(rt, "mode")), In: strs(in), Lens: lens}, op+"/prefixes-of-one-vector")
	})
	rapidCheck(t, "inj", tierN(6000, 50000), func(rt *rapid.T) {
		if rapid.Bool().Draw(rt, "chunks") {
			h1 := genHashVal().Draw(rt, "h1")
			h2 := genHashVal().Draw(rt, "h2")
			if rapid.Bool().Draw(rt, "near") {
				// differ in one 56-bit chunk boundary region only
				sh := uint(rapid.SampledFrom([]int{0, 55, 56, 111, 112, 167, 168, 223, 224, 252}).Draw(rt, "bit"))
				h2 = new(big.Int).Xor(h1, pow2(sh))
				h2.Mod(h2, bigR)
			}
			s.exec(rt, "inj", c10Case{Op: "inj-chunks", Mode: int(eng.ModeNative), In: strs([]*big.Int{h1}), In2: strs([]*big.Int{h2})}, "injective/chunks")
			return
		}
		n := rapid.IntRange(1, 3).Draw(rt, "len")
		a := make([]*big.Int, n)
		for k := range a {
			a[k] = bu(genGL().Draw(rt, "a"))
		}
		b := append([]*big.Int{}, a...)
		j := rapid.IntRange(0, n-1).Draw(rt, "j")
		b[j] = bu(genGL().Draw(rt, "b"))
		s.exec(rt, "inj", c10Case{Op: "inj-pack", Mode: int(eng.ModeNative), In: strs(a), In2: strs(b)}, "injective/pack")
	})
	if rec_thorough() || mine(1) || mine(2) {
		setRapid("tovec-dishonest", tierN(25, 600))
		rapid.Check(t, func(rt *rapid.T) {
			h := genBigBelow(new(big.Int).Sub(pow2(254), bigR)).Draw(rt, "h")
			back := "r1cs"
			if mine(2) && !mine(1) || rapid.Bool().Draw(rt, "scs") {
				back = "scs"
			}
			s.exec(rt, "tovec-dishonest", c10Case{Op: back, In: []string{h.String()}}, "tovec-dishonest/"+back)
		})
	}
	r.Done()
}

package props

import (
	"encoding/json"
	"fmt"
	"math/big"
	"strings"
	"testing"

	"verif/cs"
	"verif/eng"
	"verif/gad"
	"verif/rec"
	"verif/ref"

	"github.com/consensys/gnark/frontend"
)

// suite routes every generated case through its JSON form, so that a replay file re-executes
// exactly the code path of the original case.
type caseResult struct {
	Viol    string // violation key suffix ("" = property held)
	Desc    string
	Trivial bool
	Info    any // shown in samples
}

type caseFn func(args json.RawMessage) caseResult

type suite struct {
	id      string
	r       *rec.Rec
	runners map[string]caseFn
}

type replayEnvelope struct {
	Runner string          `json:"runner"`
	Args   json.RawMessage `json:"args"`
}

var curSuite *suite

func newSuite(id string) *suite {
	curSuite = &suite{id: id, r: rec.New(id), runners: map[string]caseFn{}}
	return curSuite
}

func (s *suite) on(name string, f caseFn) { s.runners[name] = f }

// replay handles VERIF_REPLAY; returns true if the test should return.
func (s *suite) replay(t *testing.T) bool {
	var env replayEnvelope
	is, err := rec.LoadReplay(&env)
	if !is {
		return false
	}
	if err != nil {
		s.r.Infra(t, "replay: %v", err)
	}
	f := s.runners[env.Runner]
	if f == nil {
		s.r.Infra(t, "replay: unknown runner %q", env.Runner)
	}
	res := f(env.Args)
	s.r.Case("replay/"+env.Runner, true, string(env.Args), func() any { return env })
	if res.Viol != "" {
		s.r.Fail(t, s.id+"/"+res.Viol, env, "%s", res.Desc)
	}
	s.r.Done()
	return true
}

// exec runs one generated case.
func (s *suite) exec(tb rec.TB, runner string, args any, class string) caseResult {
	b, err := json.Marshal(args)
	if err != nil {
		panic(err)
	}
	res := s.runners[runner](b)
	s.r.Case(class, !res.Trivial, runner+string(b), func() any {
		return map[string]any{"runner": runner, "args": json.RawMessage(b), "info": res.Info}
	})
	if res.Viol != "" {
		s.r.Fail(tb, s.id+"/"+res.Viol, replayEnvelope{runner, b}, "%s", res.Desc)
	}
	return res
}

func unmarshal[T any](b json.RawMessage) T {
	var v T
	if err := json.Unmarshal(b, &v); err != nil {
		panic(err)
	}
	return v
}

// compiledEvery: every n-th gadget case (by input hash) is additionally compiled with gnark's
// real R1CS / SCS builder and solved with the reference outputs as expected values, so that
// behaviour specific to a builder (expression sharing, constant folding, hint wiring) is reached too.
var compiledEvery = uint64(12)

func alsoCompiled(name string, in []*big.Int, fn gad.Fn, want []*big.Int) *caseResult {
	if compiledEvery == 0 {
		return nil
	}
	h := rec.Hash(name + fmt.Sprint(in))
	if h%compiledEvery != 0 {
		return nil
	}
	kind, mech := cs.R1CS, cs.MechForcedBits
	if (h/compiledEvery)%2 == 1 {
		kind = cs.SCS
	}
	if (h/compiledEvery/2)%2 == 1 {
		mech = cs.MechNative
	}
	sys, err := cs.Compile(kind, mech, len(in), len(want), fn)
	if err != nil {
		return &caseResult{Viol: name + "/compile-" + kind.String(), Desc: fmt.Sprintf("%s%v does not compile for %s/%s although the engine accepts it: %v", name, in, kind, mech, truncate(err.Error(), 200))}
	}
	if err := sys.Solve(in, want); err != nil {
		return &caseResult{Viol: name + "/compiled-" + kind.String(), Desc: fmt.Sprintf("%s%v: compiled %s/%s system rejects the honest witness with the reference outputs as expected values: %v", name, in, kind, mech, truncate(err.Error(), 200))}
	}
	return nil
}

// constantEvery: every n-th gadget case (by input hash) is additionally run with some or all of
// its operands given as circuit constants (what gl.NewVariable(c) / a fixed key / a circuit
// description constant produces) instead of witness variables: on the engine, whose
// Compiler().ConstantValue reports them as constants like gnark's builders do, and - for a
// sub-sample - compiled with gnark's builders.  The mathematical result does not depend on how an
// operand is supplied.
var constantEvery = uint64(6)

func constFn(fn gad.Fn, in []*big.Int, mask uint64) (gad.Fn, []*big.Int) {
	var rest []*big.Int
	isConst := make([]bool, len(in))
	for i := range in {
		isConst[i] = mask == 0 || (mask>>(uint(i)%60))&1 == 1
		if !isConst[i] {
			rest = append(rest, in[i])
		}
	}
	return func(api frontend.API, vin []frontend.Variable) []frontend.Variable {
		full := make([]frontend.Variable, len(in))
		k := 0
		for i := range in {
			if isConst[i] {
				full[i] = new(big.Int).Set(in[i])
			} else {
				full[i] = vin[k]
				k++
			}
		}
		return fn(api, full)
	}, rest
}

// isGnarkScsZeroCoeffBug recognises a defect of gnark v0.9.1's SCS builder that only constant operands
// equal to zero reach: api.Mul(x, 0) leaves a term with coefficient 0, and a later product involving it makes
// scs.(*builder).splitProd divide by that coefficient ("div by 0" while parsing the circuit).  The panic is
// raised inside gnark before any constraint of the repository is emitted; the R1CS builder and witness
// operands are unaffected.  Such circuits are skipped.
func isGnarkScsZeroCoeffBug(err error) bool {
	m := err.Error()
	return strings.Contains(m, "div by 0") && strings.Contains(m, "splitProd")
}

func alsoConstant(name string, mode eng.Mode, in []*big.Int, fn gad.Fn, want []*big.Int) *caseResult {
	if constantEvery == 0 || len(in) == 0 {
		return nil
	}
	h := rec.Hash("const" + name + fmt.Sprint(in))
	if h%constantEvery != 0 {
		return nil
	}
	mask := (h / constantEvery) >> 3
	if (h/constantEvery)%3 == 0 {
		mask = 0 // all operands constant
	}
	cfn, rest := constFn(fn, in, mask)
	if curSuite != nil {
		curSuite.r.AddExtra("constant_operand_variants_engine", 1)
	}
	cname := fmt.Sprintf("%s[constant-operands mask=%#x]", name, mask)
	cr := expectOutputsEng(cname, mode, rest, cfn, want)
	if cr.Viol != "" {
		cr.Viol = name + "/constant-operands/" + cr.Viol[strings.LastIndex(cr.Viol, "/")+1:]
		cr.Desc = fmt.Sprintf("operands %v, constants where mask bit set (0 = all): %s", in, cr.Desc)
		return &cr
	}
	// (an all-constant gadget without outputs compiles to an empty system with an empty witness, which gnark's
	// solver does not handle: nothing to check there)
	if compiledEvery != 0 && (h/constantEvery/3)%compiledEvery == 0 && len(rest)+len(want) > 0 {
		kind, mech := cs.R1CS, cs.MechForcedBits
		if (h>>40)%2 == 1 {
			kind = cs.SCS
		}
		if (h>>41)%2 == 1 {
			mech = cs.MechNative
		}
		if curSuite != nil {
			curSuite.r.AddExtra("constant_operand_variants_compiled", 1)
		}
		sys, err := cs.Compile(kind, mech, len(rest), len(want), cfn)
		if err != nil && isGnarkScsZeroCoeffBug(err) {
			return nil
		}
		if err != nil {
			return &caseResult{Viol: name + "/constant-operands/compile-" + kind.String(), Desc: fmt.Sprintf("%s operands %v does not compile for %s/%s although the engine accepts it: %v", cname, in, kind, mech, truncate(err.Error(), 200))}
		}
		if err := sys.Solve(rest, want); err != nil {
			return &caseResult{Viol: name + "/constant-operands/compiled-" + kind.String(), Desc: fmt.Sprintf("%s operands %v: compiled %s/%s system rejects the honest witness with the reference outputs as expected values: %v", cname, in, kind, mech, truncate(err.Error(), 200))}
		}
	}
	return nil
}

// twiceEvery: every n-th gadget case is additionally built twice in one circuit (same API object,
// hence the same cached Goldilocks chip, key/value store and deferred range-check collection): the
// second evaluation must give the same values as a lone one.
var twiceEvery = uint64(9)

func alsoTwice(name string, mode eng.Mode, in []*big.Int, fn gad.Fn, want []*big.Int) *caseResult {
	if twiceEvery == 0 {
		return nil
	}
	h := rec.Hash("twice" + name + fmt.Sprint(in))
	if h%twiceEvery != 0 {
		return nil
	}
	if curSuite != nil {
		curSuite.r.AddExtra("evaluated_twice_in_one_circuit", 1)
	}
	fn2 := func(api frontend.API, v []frontend.Variable) []frontend.Variable {
		fn(api, v)
		return fn(api, v)
	}
	cr := expectOutputsEng(name+"[second evaluation in the same circuit]", mode, in, fn2, want)
	if cr.Viol != "" {
		cr.Viol = name + "/twice/" + cr.Viol[strings.LastIndex(cr.Viol, "/")+1:]
		return &cr
	}
	return nil
}

// expectOutputs runs a gadget honestly and compares its outputs with the reference values.
func expectOutputs(name string, mode eng.Mode, in []*big.Int, fn gad.Fn, want []*big.Int) caseResult {
	cr := expectOutputsEng(name, mode, in, fn, want)
	if cr.Viol == "" {
		if c2 := alsoCompiled(name, in, fn, want); c2 != nil {
			return *c2
		}
		if c3 := alsoConstant(name, mode, in, fn, want); c3 != nil {
			return *c3
		}
		if c4 := alsoTwice(name, mode, in, fn, want); c4 != nil {
			return *c4
		}
	}
	return cr
}

func expectOutputsEng(name string, mode eng.Mode, in []*big.Int, fn gad.Fn, want []*big.Int) caseResult {
	res, out := gad.Run(eng.Options{Mode: mode}, in, fn)
	if res.Outcome != eng.Accept {
		return caseResult{Viol: name + "/not-accepted", Desc: fmt.Sprintf("%s%v (%s flavour) with honest hints: %s", name, in, mode, fmtRes(res))}
	}
	if res.TolerantHints > 0 {
		return caseResult{Viol: name + "/shipped-hint-failed", Desc: fmt.Sprintf("%s%v (%s flavour): %d shipped hint function(s) panicked or returned an error on honest operands (an honest prover using the repository's hints cannot produce this witness)", name, in, mode, res.TolerantHints)}
	}
	if len(out) != len(want) {
		return caseResult{Viol: name + "/arity", Desc: fmt.Sprintf("%s returned %d values, reference %d", name, len(out), len(want))}
	}
	for i := range want {
		if out[i].Cmp(want[i]) != 0 {
			return caseResult{Viol: name + "/value", Desc: fmt.Sprintf("%s%v (%s flavour): output[%d] = %s, reference = %s", name, in, mode, i, out[i], want[i])}
		}
	}
	return caseResult{Info: map[string]any{"outputs": len(out), "first": firstStr(out)}}
}

// expectReject runs a gadget that must not be satisfiable with honest hints.
func expectReject(name string, mode eng.Mode, in []*big.Int, fn gad.Fn) caseResult {
	res, _ := gad.Run(eng.Options{Mode: mode}, in, fn)
	if res.Outcome == eng.Accept {
		return caseResult{Viol: name + "/accepted", Desc: fmt.Sprintf("%s%v (%s flavour) is ACCEPTED but must be rejected", name, in, mode)}
	}
	return caseResult{Info: map[string]any{"outcome": res.Outcome.String(), "at": res.Site}}
}

func firstStr(x []*big.Int) string {
	if len(x) == 0 {
		return ""
	}
	return x[0].String()
}

func u64s(xs []uint64) []*big.Int { return bigs(xs...) }

func flatE(es []ref.E) []*big.Int {
	var o []*big.Int
	for _, e := range es {
		o = append(o, bu(e[0]), bu(e[1]))
	}
	return o
}

// expectOutputsMod compares outputs with the reference modulo the Goldilocks prime (NoReduce variants).
func expectOutputsMod(name string, mode eng.Mode, in []*big.Int, fn gad.Fn, want []*big.Int) caseResult {
	res, out := gad.Run(eng.Options{Mode: mode}, in, fn)
	if res.Outcome != eng.Accept {
		return caseResult{Viol: name + "/not-accepted", Desc: fmt.Sprintf("%s%v (%s flavour) with honest hints: %s", name, in, mode, fmtRes(res))}
	}
	if len(out) != len(want) {
		return caseResult{Viol: name + "/arity", Desc: fmt.Sprintf("%s returned %d values, reference %d", name, len(out), len(want))}
	}
	if res.TolerantHints > 0 {
		return caseResult{Viol: name + "/shipped-hint-failed", Desc: fmt.Sprintf("%s%v: %d shipped hint function(s) failed on honest operands", name, in, res.TolerantHints)}
	}
	for i := range want {
		if new(big.Int).Mod(out[i], bigP).Cmp(want[i]) != 0 {
			return caseResult{Viol: name + "/value", Desc: fmt.Sprintf("%s%v: output[%d] = %s is not congruent to %s mod p", name, in, i, out[i], want[i])}
		}
	}
	return caseResult{}
}

package props

import (
	"fmt"
	"math/big"
	"strings"
	"testing"

	"verif/cs"
	"verif/eng"
	"verif/rec"
	"verif/wv"

	"github.com/consensys/gnark/constraint/solver"
	"github.com/consensys/gnark/frontend"
	"pgregory.net/rapid"
)

// C04 The wrapper accepts proofs of one fixed inner circuit only.
//
// Domain: wrapper built from a template instance (CircuitFixed for the 16-input circuit A,
// VerifierCircuit as CompileVerifierCircuit builds it for A and B) x proving-time assignment
// whose verifier key K' differs from the template's key in one element, is another circuit's
// key, or is random.  Oracle: ACCEPT <=> K' == K_T.

type c04Case struct {
	Wrapper  string   `json:"wrapper"` // "fixed" | "plain"
	Template string   `json:"template"`
	Proof    string   `json:"proof"` // instance whose proof is presented
	K        int      `json:"k"`
	Key      []string `json:"key"` // 16 cap entries + digest supplied at proving time
	What     string   `json:"what"`
	Backend  string   `json:"backend,omitempty"` // "r1cs": wrapper compiled with gnark's R1CS builder (commit checker) and solved
}

var c04Compiled = map[string]*cs.System{}

func keyOf(in *wv.Inst) []*big.Int {
	var k []*big.Int
	for _, s := range in.VRaw.ConstantsSigmasCap {
		k = append(k, bs(s))
	}
	return append(k, bs(in.VRaw.CircuitDigest))
}

func c04Run(c c04Case) (viol bool, desc string, res eng.Result, expectAccept bool) {
	tin := wv.Load(c.Template, c.K)
	pin := wv.Load(c.Proof, c.K)
	key := unstrs(c.Key)
	tk := keyOf(tin)
	expectAccept = true
	for i := range tk {
		if tk[i].Cmp(key[i]) != 0 {
			expectAccept = false
		}
	}
	var tmpl, asg frontend.Circuit
	if c.Wrapper == "fixed" {
		a := pin.FixedAssignment()
		for i := 0; i < 16; i++ {
			a.VerifierData.ConstantSigmasCap[i] = frontend.Variable(key[i])
		}
		a.VerifierData.CircuitDigest = frontend.Variable(key[16])
		tmpl, asg = tin.FixedTemplate(), a
	} else {
		a := pin.Circuit()
		for i := 0; i < 16; i++ {
			a.VerifierData.ConstantSigmasCap[i] = frontend.Variable(key[i])
		}
		a.VerifierData.CircuitDigest = frontend.Variable(key[16])
		tmpl, asg = tin.PlainTemplate(), a
	}
	if c.Backend != "" {
		key := fmt.Sprintf("%s/%s/%d", c.Wrapper, c.Template, c.K)
		sys := c04Compiled[key]
		if sys == nil {
			var err error
			sys, err = cs.CompileCircuit(cs.R1CS, cs.MechCommit, tmpl)
			if err != nil {
				return true, "compile of the wrapper refused: " + err.Error(), res, expectAccept
			}
			c04Compiled[key] = sys
		}
		var hopts []solver.Option
		if !expectAccept {
			hopts = cs.TolerantHints() // dishonest witness: the prover is not bound to the shipped hints
		}
		serr := sys.SolveCircuit(asg, hopts...)
		res.Outcome = eng.Reject
		if serr == nil {
			res.Outcome = eng.Accept
		}
		if (serr == nil) != expectAccept {
			return true, fmt.Sprintf("%s wrapper built from %s and compiled to R1CS: solver says %v for key change %q, expected accept=%v", c.Wrapper, tin.Name(), serr, c.What, expectAccept), res, expectAccept
		}
		return false, "", res, expectAccept
	}
	res = eng.Run(tmpl, asg, eng.Options{Mode: eng.ModeNative})
	got := res.Outcome == eng.Accept
	if got == expectAccept {
		return false, "", res, expectAccept
	}
	if got {
		if r2 := eng.Run(tmpl, asg, eng.Options{Mode: eng.ModePlain}); r2.Outcome != eng.Accept {
			return false, "native-only accept", res, expectAccept
		}
		return true, fmt.Sprintf("%s wrapper built from %s ACCEPTS a proof of %s presented with a different verifier key (%s)", c.Wrapper, tin.Name(), pin.Name(), c.What), res, expectAccept
	}
	return true, fmt.Sprintf("%s wrapper built from %s does not accept a valid proof of %s with the template's own key: %s", c.Wrapper, tin.Name(), pin.Name(), fmtRes(res)), res, expectAccept
}

func indexOf(xs []int, x int) int {
	for i, y := range xs {
		if y == x {
			return i
		}
	}
	return 0
}

func TestC04(t *testing.T) {
	r := rec.New("C04")
	defer r.Flush()
	r.Rule("wrapper templates built through the repository's own compile-path constructors from corpus instances (CircuitFixed: A1,A2; VerifierCircuit: all five; k in {1,2,3} query rounds to keep FRI cheap) x proving-time key K': unchanged (control), each of the 17 key elements +1 / random / zero -- enumerated so that every cap entry not selected by any query index of the presented proof is covered --, the other inner circuit's complete key, fully random keys, and several entries altered together (cancelling deltas +d/-d over two or three entries, two entries swapped, all unselected entries at once); also a different valid proof of the same inner circuit with the right key (control).  Oracle: ACCEPT <=> K' == key of the template.  Non-trivial = K' != K_T; the stratum 'unselected cap entry' is reported separately.  Distinct = (wrapper, template, proof, K').")
	r.Assume("reference verifier computes which cap slots the query indices select", "engine semantics (C06)")

	var rp c04Case
	if is, err := rec.LoadReplay(&rp); is {
		if err != nil {
			r.Infra(t, "replay: %v", err)
		}
		v, d, _, _ := c04Run(rp)
		r.Case("replay", true, fmt.Sprint(rp), func() any { return rp })
		if v {
			r.Fail(t, "C04/"+rp.Wrapper+"/"+rp.What, rp, "%s", d)
		}
		r.Done()
		return
	}

	exec := func(tb rec.TB, c c04Case, class string) {
		viol, d, res, exp := c04Run(c)
		r.Case(class, !exp, fmt.Sprint(c.Wrapper, c.Template, c.Proof, c.K, c.Key), func() any {
			return map[string]any{"wrapper": c.Wrapper, "template": c.Template, "proof": c.Proof, "k": c.K, "key_change": c.What, "expected_accept": exp, "outcome": res.Outcome.String(), "rejected_at": res.Site}
		})
		if viol {
			r.Fail(tb, "C04/"+c.Wrapper+"/"+strings.SplitN(c.What, " ", 2)[0], c, "%s", d)
		}
	}

	type wt struct {
		wrapper, base string
	}
	wts := []wt{{"fixed", "A1"}, {"fixed", "A2"}, {"plain", "A1"}, {"plain", "B1"}, {"plain", "B2"}, {"plain", "B3"}, {"plain", "A2"}}
	ks := []int{1, 2, 3}
	item := 0
	// 1. deterministic: controls, every unselected cap entry +1, digest, other circuit's key
	for _, w := range wts {
		for _, k := range ks {
			if !rec.Thorough() && k != (len(w.base)+int(w.base[1]-'0'))%3+1 {
				continue
			}
			in := wv.Load(w.base, k)
			sel := in.SelectedCapSlots()
			tk := keyOf(in)
			item++
			if rec.Mine(item) {
				exec(t, c04Case{Wrapper: w.wrapper, Template: w.base, Proof: w.base, K: k, Key: strs(tk), What: "unchanged"}, "control/unchanged-key")
			}
			for i := 0; i < 17; i++ {
				item++
				if !rec.Mine(item) {
					continue
				}
				key := append([]*big.Int{}, tk...)
				key[i] = new(big.Int).Add(tk[i], big.NewInt(1))
				key[i].Mod(key[i], bigR)
				what, class := fmt.Sprintf("cap[%d]+1 (selected by %d queries)", i, sel[i%16]), "cap-entry-selected"
				if i == 16 {
					what, class = "digest+1", "digest"
				} else if sel[i] == 0 {
					what, class = fmt.Sprintf("cap[%d]+1 (selected by no query)", i), "cap-entry-unselected"
				}
				exec(t, c04Case{Wrapper: w.wrapper, Template: w.base, Proof: w.base, K: k, Key: strs(key), What: what}, class)
			}
			other := "B1"
			if w.base[0] == 'B' {
				other = "A1"
			}
			item++
			if rec.Mine(item) {
				exec(t, c04Case{Wrapper: w.wrapper, Template: w.base, Proof: w.base, K: k, Key: strs(keyOf(wv.Load(other, k))), What: "key-of-" + other}, "other-circuit-key")
			}
			// a different proof of the same inner circuit under the right key must be accepted
			same := map[string]string{"A1": "A2", "A2": "A1", "B1": "B2", "B2": "B3", "B3": "B1"}[w.base]
			item++
			if rec.Mine(item) {
				exec(t, c04Case{Wrapper: w.wrapper, Template: w.base, Proof: same, K: k, Key: strs(tk), What: "unchanged"}, "control/other-proof-same-circuit")
			}
		}
	}
	// 1b. the deployed configuration: CircuitFixed compiled for Groth16 (R1CS, commit checker), one shard
	if rec.Mine(5) {
		in := wv.Load("A1", 1)
		sel := in.SelectedCapSlots()
		tk := keyOf(in)
		exec(t, c04Case{Wrapper: "fixed", Template: "A1", Proof: "A1", K: 1, Key: strs(tk), What: "unchanged", Backend: "r1cs"}, "compiled-r1cs/control")
		n := 0
		for i := 0; i < 17 && n < 4; i++ {
			if i < 16 && sel[i] != 0 {
				continue
			}
			n++
			key := append([]*big.Int{}, tk...)
			key[i] = new(big.Int).Mod(new(big.Int).Add(tk[i], big.NewInt(1)), bigR)
			exec(t, c04Case{Wrapper: "fixed", Template: "A1", Proof: "A1", K: 1, Key: strs(key), What: fmt.Sprintf("element %d +1 (unselected or digest)", i), Backend: "r1cs"}, "compiled-r1cs/unselected-entry")
		}
	}

	// 2. generated: element x {+1, random, zero}, random keys
	rapidCheck(t, "keys", tierN(260, 9000), func(rt *rapid.T) {
		w := rapid.SampledFrom(wts).Draw(rt, "wrapper")
		k := rapid.SampledFrom(ks).Draw(rt, "k")
		in := wv.Load(w.base, k)
		sel := in.SelectedCapSlots()
		tk := keyOf(in)
		key := append([]*big.Int{}, tk...)
		var what, class string
		if rapid.IntRange(0, 2).Draw(rt, "multi") == 0 {
			// several entries altered together: cancelling deltas (+d,-d,..), swapped entries, or all
			// unselected entries at once -- a key check that aggregates entries (sum, product, xor) or
			// skips a range must not be satisfied by compensating changes
			var unsel, all []int
			for i := 0; i < 16; i++ {
				all = append(all, i)
				if sel[i] == 0 {
					unsel = append(unsel, i)
				}
			}
			pool := all
			if len(unsel) >= 2 && rapid.IntRange(0, 3).Draw(rt, "unselected_only") != 0 {
				pool = unsel
			}
			how := rapid.SampledFrom([]string{"cancelling-deltas", "cancelling-deltas", "swap", "all-unselected+1"}).Draw(rt, "multi_kind")
			a := pool[rapid.IntRange(0, len(pool)-1).Draw(rt, "a")]
			b := pool[rapid.IntRange(0, len(pool)-1).Draw(rt, "b")]
			if a == b {
				b = pool[(indexOf(pool, a)+1)%len(pool)]
			}
			switch how {
			case "cancelling-deltas":
				d := genBigBelow(bigR).Draw(rt, "delta")
				if d.Sign() == 0 {
					d.SetInt64(1)
				}
				key[a] = new(big.Int).Mod(new(big.Int).Add(tk[a], d), bigR)
				key[b] = new(big.Int).Mod(new(big.Int).Sub(tk[b], d), bigR)
				if rapid.Bool().Draw(rt, "three") && len(pool) > 2 {
					// split the compensation over two entries
					c := pool[(indexOf(pool, b)+1)%len(pool)]
					if c != a {
						e := genBigBelow(bigR).Draw(rt, "delta2")
						key[b] = new(big.Int).Mod(new(big.Int).Add(key[b], e), bigR)
						key[c] = new(big.Int).Mod(new(big.Int).Sub(tk[c], e), bigR)
					}
				}
			case "swap":
				key[a], key[b] = tk[b], tk[a]
			default:
				for _, i := range unsel {
					key[i] = new(big.Int).Mod(new(big.Int).Add(tk[i], big.NewInt(1)), bigR)
				}
			}
			what = fmt.Sprintf("multi:%s entries %d,%d (selected by %d,%d queries)", how, a, b, sel[a], sel[b])
			class = "multi-entry/" + how
			if a != b && sel[a] == 0 && sel[b] == 0 {
				class += "/unselected"
			}
		} else if rapid.IntRange(0, 9).Draw(rt, "allrandom") == 0 {
			for i := range key {
				key[i] = genBigBelow(bigR).Draw(rt, "v")
			}
			what, class = "random-key", "random-key"
		} else {
			i := rapid.IntRange(0, 16).Draw(rt, "element")
			how := rapid.SampledFrom([]string{"+1", "random", "zero"}).Draw(rt, "how")
			switch how {
			case "+1":
				key[i] = new(big.Int).Add(tk[i], big.NewInt(1))
				key[i].Mod(key[i], bigR)
			case "random":
				key[i] = genBigBelow(bigR).Draw(rt, "v")
			default:
				key[i] = new(big.Int)
			}
			switch {
			case i == 16:
				what, class = "digest:"+how, "digest"
			case sel[i] == 0:
				what, class = fmt.Sprintf("cap[%d]:%s (selected by no query)", i, how), "cap-entry-unselected"
			default:
				what, class = fmt.Sprintf("cap[%d]:%s (selected by %d queries)", i, how, sel[i]), "cap-entry-selected"
			}
		}
		exec(rt, c04Case{Wrapper: w.wrapper, Template: w.base, Proof: w.base, K: k, Key: strs(key), What: what}, class)
	})
	r.Done()
}

package props

import (
	"fmt"
	"strings"

	"verif/ref"

	"pgregory.net/rapid"
)

// Gate identifier grammar (plonky2 Debug formats) and *semantic* honest-row generators: rows
// are produced from what each gate means (run the computation, record the witnesses), not
// from the constraint formulas, so "all constraints vanish on honest rows" is an independent
// oracle for both the circuit's and the reference's gate polynomials.

const phantom = "PhantomData<plonky2_field::goldilocks_field::GoldilocksField>"

type gateSpec struct {
	Type   string   `json:"type"`
	P      []uint64 `json:"params"`
	Weight []uint64 `json:"weights,omitempty"`
}

func (g gateSpec) id() string {
	switch g.Type {
	case "Noop":
		return "NoopGate"
	case "PublicInput":
		return "PublicInputGate"
	case "Poseidon":
		return "PoseidonGate(" + phantom + ")<WIDTH=12>"
	case "PoseidonMds":
		return "PoseidonMdsGate(" + phantom + ")<WIDTH=12>"
	case "Constant":
		return fmt.Sprintf("ConstantGate { num_consts: %d }", g.P[0])
	case "Arithmetic":
		return fmt.Sprintf("ArithmeticGate { num_ops: %d }", g.P[0])
	case "ArithmeticExtension":
		return fmt.Sprintf("ArithmeticExtensionGate { num_ops: %d }", g.P[0])
	case "MulExtension":
		return fmt.Sprintf("MulExtensionGate { num_ops: %d }", g.P[0])
	case "BaseSum":
		return fmt.Sprintf("BaseSumGate { num_limbs: %d } + Base: %d", g.P[0], g.P[1])
	case "Reducing":
		return fmt.Sprintf("ReducingGate { num_coeffs: %d }", g.P[0])
	case "ReducingExtension":
		return fmt.Sprintf("ReducingExtensionGate { num_coeffs: %d }", g.P[0])
	case "Exponentiation":
		return fmt.Sprintf("ExponentiationGate { num_power_bits: %d, _phantom: %s }<D=2>", g.P[0], phantom)
	case "RandomAccess":
		return fmt.Sprintf("RandomAccessGate { bits: %d, num_copies: %d, num_extra_constants: %d, _phantom: %s }<D=2>", g.P[0], g.P[1], g.P[2], phantom)
	case "CosetInterpolation":
		var ws []string
		for _, w := range g.Weight {
			ws = append(ws, fmt.Sprint(w))
		}
		return fmt.Sprintf("CosetInterpolationGate { subgroup_bits: %d, degree: %d, barycentric_weights: [%s], _phantom: %s }<D=2>", g.P[0], g.P[1], strings.Join(ws, ", "), phantom)
	}
	panic("bad gate type " + g.Type)
}

var gateTypes = []string{"Noop", "PublicInput", "Poseidon", "PoseidonMds", "Constant", "Arithmetic", "ArithmeticExtension", "MulExtension", "BaseSum", "Reducing", "ReducingExtension", "Exponentiation", "RandomAccess", "CosetInterpolation"}

func baryWeights(bits uint64) []uint64 {
	n := uint64(1) << bits
	g := ref.PrimitiveRootOfUnity(bits)
	pts := make([]uint64, n)
	pts[0] = 1
	for i := uint64(1); i < n; i++ {
		pts[i] = ref.Mul(pts[i-1], g)
	}
	w := make([]uint64, n)
	for i := range pts {
		d := uint64(1)
		for j := range pts {
			if i != j {
				d = ref.Mul(d, ref.Sub(pts[i], pts[j]))
			}
		}
		w[i] = ref.Inv(d)
	}
	return w
}

// genGateSpec draws a gate with parameters over the ranges named in property C15.
func genGateSpec(typ string) *rapid.Generator[gateSpec] {
	return rapid.Custom(func(t *rapid.T) gateSpec {
		g := gateSpec{Type: typ}
		rapid.Bool().Draw(t, "_") // rapid.Custom must consume data even for parameterless gates
		r := func(lo, hi int, n string) uint64 { return uint64(rapid.IntRange(lo, hi).Draw(t, n)) }
		switch typ {
		case "Constant":
			g.P = []uint64{r(1, 4, "num_consts")}
		case "Arithmetic":
			g.P = []uint64{r(1, 20, "num_ops")}
		case "ArithmeticExtension":
			g.P = []uint64{r(1, 10, "num_ops")}
		case "MulExtension":
			g.P = []uint64{r(1, 13, "num_ops")}
		case "BaseSum":
			g.P = []uint64{r(1, 63, "num_limbs"), r(2, 4, "base")}
		case "Reducing":
			g.P = []uint64{r(1, 43, "num_coeffs")}
		case "ReducingExtension":
			g.P = []uint64{r(1, 32, "num_coeffs")}
		case "Exponentiation":
			g.P = []uint64{r(1, 67, "num_power_bits")}
		case "RandomAccess":
			// plonky2 fills the routed wires: up to 20 copies for 1 bit, 13 for 2 bits, ... (multi-digit values matter to the identifier parser)
			bits := r(1, 5, "bits")
			maxCopies := int((gateRowWires - 10) / (2 + (uint64(1) << bits) + bits))
			if maxCopies > 20 {
				maxCopies = 20
			}
			g.P = []uint64{bits, r(1, maxCopies, "copies"), r(0, 2, "extra")}
		case "CosetInterpolation":
			sb := r(2, 4, "subgroup_bits")
			deg := r(2, 6, "degree")
			if deg > (uint64(1) << sb) {
				deg = uint64(1) << sb
			}
			g.P = []uint64{sb, deg}
			g.Weight = baryWeights(sb)
		}
		return g
	})
}

const gateRowWires, gateRowConsts = 300, 8

// honestRow returns base-field wires/constants (as extension elements with zero imaginary
// part), and a public-input hash, on which the gate's constraints must all vanish.
func honestRow(t *rapid.T, g gateSpec) (wires, consts []ref.E, pi [4]uint64) {
	f := func(n string) uint64 { return genGL().Draw(t, n) }
	w := make([]uint64, gateRowWires)
	for i := range w {
		w[i] = f("w")
	}
	c := make([]uint64, gateRowConsts)
	for i := range c {
		c[i] = f("c")
	}
	for i := range pi {
		pi[i] = f("pi")
	}
	// helpers on GF(p^2) elements stored in two consecutive base wires
	getE := func(i uint64) ref.E { return ref.E{w[i], w[i+1]} }
	putE := func(i uint64, e ref.E) { w[i], w[i+1] = e[0], e[1] }
	switch g.Type {
	case "Noop":
	case "Constant":
		for i := uint64(0); i < g.P[0]; i++ {
			w[i] = c[i]
		}
	case "PublicInput":
		copy(w[:4], pi[:])
	case "Arithmetic":
		for i := uint64(0); i < g.P[0]; i++ {
			w[4*i+3] = ref.Add(ref.Mul(ref.Mul(w[4*i], w[4*i+1]), c[0]), ref.Mul(w[4*i+2], c[1]))
		}
	case "ArithmeticExtension":
		for i := uint64(0); i < g.P[0]; i++ {
			m := ref.EMul(getE(8*i), getE(8*i+2))
			putE(8*i+6, ref.EAdd(ref.EScal(m, c[0]), ref.EScal(getE(8*i+4), c[1])))
		}
	case "MulExtension":
		for i := uint64(0); i < g.P[0]; i++ {
			putE(6*i+4, ref.EScal(ref.EMul(getE(6*i), getE(6*i+2)), c[0]))
		}
	case "BaseSum":
		sum, pw := uint64(0), uint64(1)
		for i := uint64(0); i < g.P[0]; i++ {
			l := uint64(rapid.IntRange(0, int(g.P[1])-1).Draw(t, "limb"))
			w[1+i] = l
			sum = ref.Add(sum, ref.Mul(l, pw))
			pw = ref.Mul(pw, g.P[1])
		}
		w[0] = sum
	case "RandomAccess":
		bits, copies, extra := g.P[0], g.P[1], g.P[2]
		vec := uint64(1) << bits
		routed := (2+vec)*copies + extra
		for cp := uint64(0); cp < copies; cp++ {
			base := (2 + vec) * cp
			idx := uint64(rapid.IntRange(0, int(vec)-1).Draw(t, "access"))
			w[base] = idx
			w[base+1] = w[base+2+idx]
			for j := uint64(0); j < bits; j++ {
				w[routed+cp*bits+j] = (idx >> j) & 1
			}
		}
		for i := uint64(0); i < extra; i++ {
			w[(2+vec)*copies+i] = c[i]
		}
	case "Reducing":
		n := g.P[0]
		alpha, acc := getE(2), getE(4)
		for i := uint64(0); i < n; i++ {
			acc = ref.EAdd(ref.EMul(acc, alpha), ref.EF(w[6+i]))
			if i == n-1 {
				putE(0, acc)
			} else {
				putE(6+n+2*i, acc)
			}
		}
	case "ReducingExtension":
		n := g.P[0]
		alpha, acc := getE(2), getE(4)
		for i := uint64(0); i < n; i++ {
			acc = ref.EAdd(ref.EMul(acc, alpha), getE(6+2*i))
			if i == n-1 {
				putE(0, acc)
			} else {
				putE(6+2*n+2*i, acc)
			}
		}
	case "Exponentiation":
		n := g.P[0]
		base := w[0]
		for i := uint64(0); i < n; i++ {
			w[1+i] = uint64(rapid.IntRange(0, 1).Draw(t, "bit"))
		}
		cur := uint64(1)
		for i := uint64(0); i < n; i++ {
			if i > 0 {
				cur = ref.Mul(cur, cur)
			}
			if w[1+(n-1-i)] == 1 {
				cur = ref.Mul(cur, base)
			}
			w[2+n+i] = cur
		}
		w[1+n] = cur
	case "PoseidonMds":
		var in [12]ref.E
		for i := range in {
			in[i] = getE(uint64(2 * i))
		}
		out := ref.MdsE(in)
		for i := range out {
			putE(uint64(2*(12+i)), out[i])
		}
	case "CosetInterpolation":
		sb, deg := g.P[0], g.P[1]
		np := uint64(1) << sb
		startVals, startEP := uint64(1), 1+np*2
		startEV, startInt := startEP+2, startEP+4
		nInt := (np - 2) / (deg - 1)
		startShifted := startInt + 4*nInt
		shift := w[0]
		if shift == 0 {
			shift = 3
			w[0] = 3
		}
		point := getE(startEP)
		sp := ref.EScal(point, ref.Inv(shift))
		putE(startShifted, sp)
		root := ref.PrimitiveRootOfUnity(sb)
		dom := make([]uint64, np)
		dom[0] = 1
		for i := uint64(1); i < np; i++ {
			dom[i] = ref.Mul(dom[i-1], root)
		}
		// unnormalised barycentric partial sums over the first m points, in closed form
		partial := func(m uint64) (ev, pr ref.E) {
			pr = ref.EOne
			for j := uint64(0); j < m; j++ {
				pr = ref.EMul(pr, ref.ESub(sp, ref.EF(dom[j])))
			}
			for i := uint64(0); i < m; i++ {
				term := ref.EScal(getE(startVals+2*i), g.Weight[i])
				for j := uint64(0); j < m; j++ {
					if j != i {
						term = ref.EMul(term, ref.ESub(sp, ref.EF(dom[j])))
					}
				}
				ev = ref.EAdd(ev, term)
			}
			return
		}
		for i := uint64(0); i < nInt; i++ {
			ev, pr := partial(deg + (deg-1)*i)
			putE(startInt+2*i, ev)
			putE(startInt+2*(nInt+i), pr)
		}
		ev, _ := partial(np)
		putE(startEV, ev)
	case "Poseidon":
		const wSwap, wDelta, wFull0, wPartial, wFull1 = 24, 25, 29, 65, 87
		swap := uint64(rapid.IntRange(0, 1).Draw(t, "swap"))
		w[wSwap] = swap
		var st [12]ref.E
		for i := 0; i < 4; i++ {
			d := ref.Mul(swap, ref.Sub(w[i+4], w[i]))
			w[wDelta+i] = d
			st[i] = ref.EF(ref.Add(w[i], d))
			st[i+4] = ref.EF(ref.Sub(w[i+4], d))
		}
		for i := 8; i < 12; i++ {
			st[i] = ref.EF(w[i])
		}
		rc := 0
		for r := 0; r < 4; r++ {
			for i := range st {
				st[i] = ref.EAdd(st[i], ref.EF(ref.GL.RC[12*rc+i]))
			}
			if r != 0 {
				for i := range st {
					w[wFull0+12*(r-1)+i] = st[i][0]
				}
			}
			for i := range st {
				st[i] = ref.SBox7E(st[i])
			}
			st = ref.MdsE(st)
			rc++
		}
		for i := range st {
			st[i] = ref.EAdd(st[i], ref.EF(ref.FAST.FirstRC[i]))
		}
		st = ref.PartialInitE(st)
		for r := 0; r < 22; r++ {
			w[wPartial+r] = st[0][0]
			st[0] = ref.SBox7E(st[0])
			if r < 21 {
				st[0] = ref.EAdd(st[0], ref.EF(ref.FAST.RC[r]))
			}
			st = ref.PartialFastE(st, r)
		}
		rc += 22
		for r := 0; r < 4; r++ {
			for i := range st {
				st[i] = ref.EAdd(st[i], ref.EF(ref.GL.RC[12*rc+i]))
			}
			for i := range st {
				w[wFull1+12*r+i] = st[i][0]
			}
			for i := range st {
				st[i] = ref.SBox7E(st[i])
			}
			st = ref.MdsE(st)
			rc++
		}
		for i := range st {
			w[12+i] = st[i][0]
		}
	}
	wires = make([]ref.E, len(w))
	for i := range w {
		wires[i] = ref.EF(w[i])
	}
	consts = make([]ref.E, len(c))
	for i := range c {
		consts[i] = ref.EF(c[i])
	}
	return
}

package props

import (
	"fmt"
	"math/big"
	"os"
	"sort"
	"strconv"
	"testing"

	"verif/eng"
	"verif/rec"
	"verif/ref"

	"github.com/consensys/gnark-crypto/ecc/bn254/fr"
	"github.com/consensys/gnark/frontend"
	gl "github.com/wormhole-foundation/example-near-light-client/goldilocks"
	"pgregory.net/rapid"
)

var (
	bigP = new(big.Int).SetUint64(ref.P)
	bigR = fr.Modulus()
)

func bu(x uint64) *big.Int { return new(big.Int).SetUint64(x) }
func bs(s string) *big.Int {
	b, ok := new(big.Int).SetString(s, 0)
	if !ok {
		panic("bad int " + s)
	}
	return b
}
func pow2(n uint) *big.Int { return new(big.Int).Lsh(big.NewInt(1), n) }

// Edge values of the Goldilocks field named in the properties.
var glEdges = []uint64{0, 1, 1<<32 - 1, 1 << 32, 1 << 63, ref.P - (1 << 32), ref.P - 1}
var glEdgesMore = []uint64{2, 7, 1<<32 + 1, 1<<63 - 1, 1<<63 + 1, ref.P - 2, ref.P - (1 << 32) - 1, ref.P - (1 << 32) + 1, 0xfffffffe00000000, 0xfffffffeffffffff, 0xffffffff00000000}

// genGL draws a canonical Goldilocks element: edges with probability ~1/3, else uniform.
func genGL() *rapid.Generator[uint64] {
	return rapid.Custom(func(t *rapid.T) uint64 {
		switch rapid.IntRange(0, 5).Draw(t, "glkind") {
		case 0:
			return rapid.SampledFrom(glEdges).Draw(t, "edge")
		case 1:
			return rapid.SampledFrom(glEdgesMore).Draw(t, "edge2")
		default:
			return rapid.Uint64Range(0, ref.P-1).Draw(t, "gl")
		}
	})
}

func genE() *rapid.Generator[ref.E] {
	return rapid.Custom(func(t *rapid.T) ref.E {
		return ref.E{genGL().Draw(t, "re"), genGL().Draw(t, "im")}
	})
}

// genBigBelow draws an integer in [0, bound): uniform bytes reduced, mixed with values close
// to 0 and to bound.
func genBigBelow(bound *big.Int) *rapid.Generator[*big.Int] {
	return rapid.Custom(func(t *rapid.T) *big.Int {
		switch rapid.IntRange(0, 7).Draw(t, "bigkind") {
		case 0:
			d := rapid.Uint64Range(1, 1<<20).Draw(t, "below")
			x := new(big.Int).Sub(bound, bu(d))
			if x.Sign() < 0 {
				x.SetInt64(0)
			}
			return x
		case 1:
			x := bu(rapid.Uint64Range(0, 1<<20).Draw(t, "small"))
			return x.Mod(x, bound)
		case 2:
			// random bit length
			n := rapid.IntRange(1, bound.BitLen()).Draw(t, "bits")
			bs := rapid.SliceOfN(rapid.Byte(), (n+7)/8, (n+7)/8).Draw(t, "bytes")
			x := new(big.Int).SetBytes(bs)
			x.Rsh(x, uint((8-n%8)%8))
			return x.Mod(x, bound)
		default:
			bs := rapid.SliceOfN(rapid.Byte(), (bound.BitLen()+15)/8, (bound.BitLen()+15)/8).Draw(t, "bytes")
			x := new(big.Int).SetBytes(bs)
			return x.Mod(x, bound)
		}
	})
}

func genMode() *rapid.Generator[eng.Mode] {
	return rapid.SampledFrom([]eng.Mode{eng.ModeNative, eng.ModeNative, eng.ModePlain})
}

func glv(v frontend.Variable) gl.Variable { return gl.NewVariable(v) }
func qev(a, b frontend.Variable) gl.QuadraticExtensionVariable {
	return gl.QuadraticExtensionVariable{gl.NewVariable(a), gl.NewVariable(b)}
}

func bigs(xs ...uint64) []*big.Int {
	o := make([]*big.Int, len(xs))
	for i, x := range xs {
		o[i] = bu(x)
	}
	return o
}

func strs(xs []*big.Int) []string {
	o := make([]string, len(xs))
	for i, x := range xs {
		o[i] = x.String()
	}
	return o
}

func unstrs(ss []string) []*big.Int {
	o := make([]*big.Int, len(ss))
	for i, s := range ss {
		o[i] = bs(s)
	}
	return o
}

// rapidCheck runs a rapid property with the per-tier case count split over shards.
func rapidCheck(t *testing.T, name string, total int, prop func(*rapid.T)) {
	t.Helper()
	rec.SetRapid(name, rec.Share(total))
	rapid.Check(t, prop)
}

// tierN returns the case count of the current tier; thorough counts are multiplied by
// VERIF_THOROUGH_SCALE (default 4) so that the depth of the thorough tier can be chosen per run.
func tierN(quick, thorough int) int {
	if rec.Thorough() {
		scale := 4
		if v, err := strconv.Atoi(os.Getenv("VERIF_THOROUGH_SCALE")); err == nil && v > 0 {
			scale = v
		}
		return thorough * scale
	}
	return quick
}

func modeOpt(m eng.Mode) eng.Options { return eng.Options{Mode: m} }

func fmtRes(r eng.Result) string {
	return fmt.Sprintf("%v %q @ %s", r.Outcome, r.Msg, r.Site)
}

func rec_thorough() bool          { return rec.Thorough() }
func mine(i int) bool             { return rec.Mine(i) }
func setRapid(name string, n int) { rec.SetRapid(name, n) }

func sortStrings(s []string) { sort.Strings(s) }

package props

import (
	"encoding/json"
	"fmt"
	"os"
	"reflect"
	"strings"
	"testing"

	"verif/corp"
	"verif/eng"
	"verif/ref"

	"github.com/consensys/gnark/frontend"
	gl "github.com/wormhole-foundation/example-near-light-client/goldilocks"
	"github.com/wormhole-foundation/example-near-light-client/plonk/gates"
	"github.com/wormhole-foundation/example-near-light-client/types"
	"pgregory.net/rapid"
)

// C18 Gate identifiers resolve to exactly one gate with stated parameters, or fail.

const c18Reps = 200 // resolutions per identifier: sweeps Go's randomised map iteration order

func expectedGateId(g gateSpec) string {
	switch g.Type {
	case "Noop":
		return "NoopGate"
	case "PublicInput":
		return "PublicInputGate"
	case "Poseidon":
		return "PoseidonGate"
	case "PoseidonMds":
		return "PoseidonMdsGate"
	case "Constant":
		return fmt.Sprintf("ConstantGate { num_consts: %d }", g.P[0])
	case "Arithmetic":
		return fmt.Sprintf("ArithmeticGate { num_ops: %d }", g.P[0])
	case "ArithmeticExtension":
		return fmt.Sprintf("ArithmeticExtensionGate { num_ops: %d }", g.P[0])
	case "MulExtension":
		return fmt.Sprintf("MulExtensionGate { num_ops: %d }", g.P[0])
	case "BaseSum":
		return fmt.Sprintf("BaseSumGate { num_limbs: %d } + Base: %d", g.P[0], g.P[1])
	case "Reducing":
		return fmt.Sprintf("ReducingGate { num_coeffs: %d }", g.P[0])
	case "ReducingExtension":
		return fmt.Sprintf("ReducingExtensionGate { num_coeffs: %d }", g.P[0])
	case "Exponentiation":
		return fmt.Sprintf("ExponentiationGate { num_power_bits: %d }", g.P[0])
	case "RandomAccess":
		return fmt.Sprintf("RandomAccessGate { bits: %d, num_copies: %d, num_extra_constants: %d }", g.P[0], g.P[1], g.P[2])
	case "CosetInterpolation":
		return fmt.Sprintf("CosetInterpolationGate { subgroup_bits: %d, degree: %d, ", g.P[0], g.P[1]) // prefix
	}
	panic("bad type")
}

func resolve(id string) (g gates.Gate, refused string) {
	defer func() {
		if r := recover(); r != nil {
			refused = fmt.Sprint(r)
		}
	}()
	return gates.GateInstanceFromId(id), ""
}

type c18Sup struct {
	Gate gateSpec    `json:"gate"`
	W    [][2]uint64 `json:"wires"`
	C    [][2]uint64 `json:"consts"`
	PI   [4]uint64   `json:"pi"`
	// identifiers of other gates of the same circuit, resolved after this one and before it is used
	Then []gateSpec `json:"resolved_afterwards,omitempty"`
}

func c18Supported(a c18Sup) caseResult {
	id := a.Gate.id()
	want := expectedGateId(a.Gate)
	var first gates.Gate
	for i := 0; i < c18Reps; i++ {
		g, refused := resolve(id)
		if refused != "" {
			return caseResult{Viol: "supported-refused/" + a.Gate.Type, Desc: fmt.Sprintf("identifier %q of a supported gate refused on resolution %d: %s", id, i, refused)}
		}
		got := g.Id()
		if got != want && !(a.Gate.Type == "CosetInterpolation" && strings.HasPrefix(got, want)) {
			return caseResult{Viol: "wrong-gate/" + a.Gate.Type, Desc: fmt.Sprintf("identifier %q resolved (resolution %d) to %q, expected %q", id, i, got, want)}
		}
		if first == nil {
			first = g
		} else if !reflect.DeepEqual(first, g) {
			return caseResult{Viol: "unstable/" + a.Gate.Type, Desc: fmt.Sprintf("identifier %q resolved to different gates on different resolutions: %#v vs %#v", id, first, g)}
		}
	}
	// a circuit description lists several gates: all are resolved before any is used, and resolving the later
	// ones must leave the earlier gate what its identifier states
	for _, o := range a.Then {
		if _, refused := resolve(o.id()); refused != "" {
			return caseResult{Viol: "supported-refused/" + o.Type, Desc: fmt.Sprintf("identifier %q of a supported gate refused when resolved after %q: %s", o.id(), id, refused)}
		}
	}
	if len(a.Then) > 0 {
		if again, refused := resolve(id); refused != "" || !reflect.DeepEqual(first, again) {
			return caseResult{Viol: "changed-by-later-resolution/" + a.Gate.Type, Desc: fmt.Sprintf("the gate resolved from %q is no longer equal to a fresh resolution of the same identifier after %d other identifiers were resolved (%v): %#v vs %#v", id, len(a.Then), refused, first, again)}
		}
	}
	// behaviour of the resolved gate on one random row equals the reference gate with the stated parameters
	rg, err := ref.ParseGate(id)
	if err != nil {
		return caseResult{Viol: "infra/ref-parse", Desc: err.Error()}
	}
	wantC := rg.Eval(&ref.Vars{Consts: toEs(a.C), Wires: toEs(a.W), PIHash: a.PI})
	nw, nc := len(a.W), len(a.C)
	g0 := first
	fn := func(api frontend.API, v []frontend.Variable) []frontend.Variable {
		w, c, h := readRow(v, nw, nc)
		return flatQE(g0.EvalUnfiltered(api, gl.New(api), *gates.NewEvaluationVars(c, w, h)))
	}
	cr := expectOutputs("resolved "+a.Gate.Type, eng.ModeNative, rowInputs(a.W, a.C, a.PI), fn, flatE(wantC))
	if cr.Viol != "" {
		cr.Desc = fmt.Sprintf("identifier %q: %s", id, cr.Desc)
	}
	cr.Info = map[string]any{"id": truncate(id, 90), "resolved_as": truncate(first.Id(), 60), "resolutions": c18Reps}
	return cr
}

func c18Unsupported(id string) caseResult {
	for i := 0; i < c18Reps; i++ {
		g, refused := resolve(id)
		if refused == "" {
			return caseResult{Viol: "unsupported-accepted", Desc: fmt.Sprintf("identifier %q of a gate the verifier does not implement resolved (resolution %d) to %q instead of being refused", id, i, g.Id())}
		}
	}
	return caseResult{Info: map[string]any{"id": truncate(id, 100), "refused": true, "resolutions": c18Reps}}
}

// unsupported plonky2 gate Debug formats
func genUnsupportedId() *rapid.Generator[string] {
	return rapid.Custom(func(t *rapid.T) string {
		n := func(lo, hi int, name string) int { return rapid.IntRange(lo, hi).Draw(t, name) }
		lut := func() string {
			var b []string
			for i := 0; i < 32; i++ {
				b = append(b, fmt.Sprint(n(0, 255, "b")))
			}
			return "[" + strings.Join(b, ", ") + "]"
		}
		switch rapid.SampledFrom([]string{"lookup", "lookuptable", "u32arith", "u32addmany", "u32sub", "comparison", "u32range", "d4-randomaccess", "d4-exponentiation", "d4-coset", "d3-randomaccess"}).Draw(t, "kind") {
		case "lookup":
			return fmt.Sprintf("LookupGate { num_slots: %d, lut_hash: %s }", n(1, 40, "slots"), lut())
		case "lookuptable":
			return fmt.Sprintf("LookupTableGate { num_slots: %d, lut_hash: %s, last_lut_row: %d }", n(1, 26, "slots"), lut(), n(0, 4096, "row"))
		case "u32arith":
			return fmt.Sprintf("U32ArithmeticGate { num_ops: %d, _phantom: %s }", n(1, 20, "ops"), phantom)
		case "u32addmany":
			return fmt.Sprintf("U32AddManyGate { num_addends: %d, num_ops: %d, _phantom: %s }", n(1, 16, "addends"), n(1, 20, "ops"), phantom)
		case "u32sub":
			return fmt.Sprintf("U32SubtractionGate { num_ops: %d, _phantom: %s }", n(1, 20, "ops"), phantom)
		case "comparison":
			return fmt.Sprintf("ComparisonGate { num_bits: %d, num_chunks: %d, _phantom: %s }<D=2>", n(1, 64, "bits"), n(1, 16, "chunks"), phantom)
		case "u32range":
			return fmt.Sprintf("U32RangeCheckGate { num_input_limbs: %d, _phantom: %s }", n(1, 16, "limbs"), phantom)
		case "d4-randomaccess":
			return fmt.Sprintf("RandomAccessGate { bits: %d, num_copies: %d, num_extra_constants: %d, _phantom: %s }<D=4>", n(1, 5, "bits"), n(1, 4, "copies"), n(0, 2, "extra"), phantom)
		case "d3-randomaccess":
			return fmt.Sprintf("RandomAccessGate { bits: %d, num_copies: %d, num_extra_constants: %d, _phantom: %s }<D=%d>", n(1, 5, "bits"), n(1, 4, "copies"), n(0, 2, "extra"), phantom, rapid.SampledFrom([]int{1, 3, 5, 8}).Draw(t, "D"))
		case "d4-exponentiation":
			return fmt.Sprintf("ExponentiationGate { num_power_bits: %d, _phantom: %s }<D=4>", n(1, 67, "bits"), phantom)
		default: // d4-coset
			sb := uint64(n(2, 4, "sb"))
			var ws []string
			for _, w := range baryWeights(sb) {
				ws = append(ws, fmt.Sprint(w))
			}
			return fmt.Sprintf("CosetInterpolationGate { subgroup_bits: %d, degree: %d, barycentric_weights: [%s], _phantom: %s }<D=4>", sb, n(2, 4, "deg"), strings.Join(ws, ", "), phantom)
		}
	})
}

func TestC18(t *testing.T) {
	s := newSuite("C18")
	compiledEvery = 0
	r := s.r
	defer r.Flush()
	r.Rule("identifier strings generated from plonky2's Debug formats: (supported) the 14 implemented gate types with parameters over their ranges, each resolved 200 times (Go randomises map iteration per range loop): every resolution must return a gate whose Id() states exactly the identifier's parameters, all resolutions must be deeply equal, and the resolved gate's constraint values on a random row must equal the reference gate built from the stated parameters; (unsupported) LookupGate, LookupTableGate, U32ArithmeticGate, U32AddManyGate, U32SubtractionGate, ComparisonGate, U32RangeCheckGate, and RandomAccess/Exponentiation/CosetInterpolation gates over extension degree D != 2: every one of 200 resolutions must be refused; a third of the supported cases resolve 1..3 further identifiers (same type with other parameters, or another type) after the gate under test and before it is used - it must still equal a fresh resolution and behave as its identifier states; common circuit data with hiding enabled must be refused by the reader.  Non-trivial = every case; distinct = identifier.")
	r.Assume("Debug formats of the unsupported gates are written from the plonky2 / plonky2-u32 sources as remembered (no Rust toolchain crates offline)")
	s.on("supported", func(b json.RawMessage) caseResult { return c18Supported(unmarshal[c18Sup](b)) })
	s.on("unsupported", func(b json.RawMessage) caseResult { return c18Unsupported(unmarshal[string](b)) })
	s.on("hiding", func(b json.RawMessage) caseResult {
		base := unmarshal[string](b)
		doc := loadGeneric(corp.Path(base, "common_data.json"))
		doc["fri_params"].(map[string]any)["hiding"] = true
		raw, _ := json.Marshal(doc)
		f, _ := os.CreateTemp(os.Getenv("VERIF_OUT"), "cd-*.json")
		f.Write(raw)
		f.Close()
		defer os.Remove(f.Name())
		refused := ""
		func() {
			defer func() {
				if r := recover(); r != nil {
					refused = fmt.Sprint(r)
				}
			}()
			types.ReadCommonCircuitData(f.Name())
		}()
		if refused == "" {
			return caseResult{Viol: "hiding-accepted", Desc: "common circuit data of " + base + " with fri_params.hiding = true was read without an error"}
		}
		return caseResult{Info: refused}
	})
	if s.replay(t) {
		return
	}
	// the identifiers of the real circuits first
	n := 0
	for _, b := range []string{"A1", "B1"} {
		var rc ref.Common
		ref.LoadJSON(corp.Path(b, "common_data.json"), &rc)
		for _, id := range rc.Gates {
			n++
			if !mine(n) {
				continue
			}
			id := id
			rapidOnce(t, "real/"+id, func(rt *rapid.T) {
				w, c, pi := genRowRandom(rt, gateRowWires, gateRowConsts)
				g := specFromId(id)
				s.exec(rt, "supported", c18Sup{Gate: g, W: w, C: c, PI: pi}, "supported/real-circuit/"+g.Type)
			})
		}
	}
	rapidCheck(t, "supported", tierN(3000, 20000), func(rt *rapid.T) {
		typ := rapid.SampledFrom(gateTypes).Draw(rt, "type")
		if typ == "Poseidon" && rapid.IntRange(0, 3).Draw(rt, "thin") != 0 {
			typ = rapid.SampledFrom(gateTypes[4:]).Draw(rt, "type2")
		}
		g := genGateSpec(typ).Draw(rt, "gate")
		w, c, pi := genRowRandom(rt, gateRowWires, gateRowConsts)
		a, class := c18Sup{Gate: g, W: w, C: c, PI: pi}, "supported/"+typ
		if rapid.IntRange(0, 2).Draw(rt, "others") == 0 {
			for i := rapid.IntRange(1, 3).Draw(rt, "n_others"); i > 0; i-- {
				t2 := typ // the same type with other parameters is the interesting neighbour
				if rapid.Bool().Draw(rt, "other_type") {
					t2 = rapid.SampledFrom(gateTypes).Draw(rt, "type_other")
				}
				a.Then = append(a.Then, genGateSpec(t2).Draw(rt, "other"))
			}
			class = "supported-then-others/" + typ
		}
		s.exec(rt, "supported", a, class)
	})
	rapidCheck(t, "unsupported", tierN(3000, 20000), func(rt *rapid.T) {
		id := genUnsupportedId().Draw(rt, "id")
		s.exec(rt, "unsupported", id, "unsupported/"+strings.SplitN(id, " ", 2)[0])
	})
	for i, b := range corp.Names {
		if mine(i) {
			s.exec(t, "hiding", b, "hiding-enabled")
		}
	}
	r.Done()
}

// specFromId recovers the gateSpec of an identifier produced by gateSpec.id (used for the real circuits' ids).
func specFromId(id string) gateSpec {
	nums := func() []uint64 {
		var o []uint64
		for _, m := range reGateNum.FindAllStringSubmatch(id, -1) {
			var x uint64
			fmt.Sscan(m[2], &x)
			o = append(o, x)
		}
		return o
	}
	switch {
	case id == "NoopGate":
		return gateSpec{Type: "Noop"}
	case id == "PublicInputGate":
		return gateSpec{Type: "PublicInput"}
	case strings.HasPrefix(id, "PoseidonGate("):
		return gateSpec{Type: "Poseidon"}
	case strings.HasPrefix(id, "PoseidonMdsGate("):
		return gateSpec{Type: "PoseidonMds"}
	case strings.HasPrefix(id, "CosetInterpolationGate"):
		n := nums()
		return gateSpec{Type: "CosetInterpolation", P: n[:2], Weight: n[2 : len(n)-1]}
	}
	for _, t := range []string{"Constant", "ArithmeticExtension", "Arithmetic", "MulExtension", "BaseSum", "ReducingExtension", "Reducing", "Exponentiation", "RandomAccess"} {
		if strings.HasPrefix(id, t+"Gate {") {
			n := nums()
			switch t {
			case "BaseSum":
				return gateSpec{Type: t, P: n[:2]}
			case "RandomAccess":
				return gateSpec{Type: t, P: n[:3]}
			}
			return gateSpec{Type: t, P: n[:1]}
		}
	}
	panic("cannot parse " + id)
}

func rapidOnce(t *testing.T, name string, prop func(*rapid.T)) {
	setRapid(name, 1)
	rapid.Check(t, prop)
}

package props

import (
	"bytes"
	"encoding/json"
	"fmt"
	"math/big"
	"os"
	"testing"

	"verif/corp"
	"verif/eng"
	"verif/gad"
	"verif/ref"

	"github.com/consensys/gnark-crypto/ecc/bn254/fr"
	"github.com/consensys/gnark/frontend"
	"github.com/wormhole-foundation/example-near-light-client/challenger"
	"github.com/wormhole-foundation/example-near-light-client/fri"
	gl "github.com/wormhole-foundation/example-near-light-client/goldilocks"
	"github.com/wormhole-foundation/example-near-light-client/poseidon"
	"github.com/wormhole-foundation/example-near-light-client/types"
	"github.com/wormhole-foundation/example-near-light-client/variables"
	"github.com/wormhole-foundation/example-near-light-client/verifier"
	"pgregory.net/rapid"
)

// C11 Fiat-Shamir challenges follow plonky2's transcript exactly and bind all data.
//
// (1) model-based testing of challenger.Chip: generated observe/squeeze histories executed in one
//     circuit, compared with ref's duplex challenger squeeze by squeeze.
// (2) VerifierChip.GetChallenges on the real proofs and on random transcripts of the same
//     shape, compared with ref.GetChallenges.
// (3) metamorphic: changing one observed value changes every later challenge and no earlier one.

type chOp struct {
	Op   string   `json:"op"` // elem elems hash bn254 cap ext exts get getn getext gethash
	Vals []string `json:"vals,omitempty"`
	N    int      `json:"n,omitempty"`
	Chip int      `json:"challenger,omitempty"` // 0 / 1: which of two challengers living in the same circuit performs the operation
}

type c11Hist struct {
	Mode int    `json:"mode"`
	Ops  []chOp `json:"ops"`
}

// runHistory executes the history in circuit; returns the squeezed values.
func runHistory(h c11Hist) (eng.Result, []*big.Int) {
	var in []*big.Int
	for _, o := range h.Ops {
		in = append(in, unstrs(o.Vals)...)
	}
	fn := func(api frontend.API, v []frontend.Variable) []frontend.Variable {
		cs2 := [2]*challenger.Chip{challenger.NewChip(api), nil}
		var out []frontend.Variable
		p := 0
		take := func(n int) []frontend.Variable { s := v[p : p+n]; p += n; return s }
		for _, o := range h.Ops {
			if cs2[o.Chip] == nil {
				cs2[o.Chip] = challenger.NewChip(api)
			}
			c := cs2[o.Chip]
			switch o.Op {
			case "elem":
				c.ObserveElement(glv(take(1)[0]))
			case "elems":
				c.ObserveElements(glvs(take(len(o.Vals))))
			case "hash":
				x := take(4)
				c.ObserveHash(poseidon.GoldilocksHashOut{glv(x[0]), glv(x[1]), glv(x[2]), glv(x[3])})
			case "bn254":
				c.ObserveBN254Hash(take(1)[0])
			case "cap":
				c.ObserveCap(take(len(o.Vals)))
			case "ext":
				x := take(2)
				c.ObserveExtensionElement(qev(x[0], x[1]))
			case "exts":
				x := take(len(o.Vals))
				var es []gl.QuadraticExtensionVariable
				for i := 0; i+1 < len(x); i += 2 {
					es = append(es, qev(x[i], x[i+1]))
				}
				c.ObserveExtensionElements(es)
			case "get":
				out = append(out, c.GetChallenge().Limb)
			case "getn":
				out = append(out, limbs(c.GetNChallenges(uint64(o.N)))...)
			case "getext":
				e := c.GetExtensionChallenge()
				out = append(out, e[0].Limb, e[1].Limb)
			case "gethash":
				hh := c.GetHash()
				out = append(out, hh[0].Limb, hh[1].Limb, hh[2].Limb, hh[3].Limb)
			default:
				panic("bad op " + o.Op)
			}
		}
		return out
	}
	return gad.Run(eng.Options{Mode: eng.Mode(h.Mode)}, in, fn)
}

// modelHistory steps ref's duplex challenger through the same history.
func modelHistory(h c11Hist) []*big.Int {
	var cs2 [2]ref.Challenger
	var out []*big.Int
	for _, o := range h.Ops {
		vals := unstrs(o.Vals)
		c := &cs2[o.Chip]
		switch o.Op {
		case "elem", "elems", "hash", "ext", "exts":
			for _, v := range vals {
				c.Observe(ref.FromBig(v))
			}
		case "bn254", "cap":
			for _, v := range vals {
				var e fr.Element
				e.SetBigInt(v)
				c.ObserveMany(ref.HashToVec(e))
			}
		case "get":
			out = append(out, bu(c.Get()))
		case "getn":
			out = append(out, u64s(c.GetN(o.N))...)
		case "getext":
			e := c.GetE()
			out = append(out, bu(e[0]), bu(e[1]))
		case "gethash":
			out = append(out, u64s(c.GetN(4))...)
		}
	}
	return out
}

func genObsVal(t *rapid.T) *big.Int {
	x := bu(genGL().Draw(t, "v"))
	if rapid.IntRange(0, 5).Draw(t, "noncanon") == 0 {
		k := genBigBelow(pow2(40)).Draw(t, "k")
		k.Add(k, big.NewInt(1))
		x.Add(x, k.Mul(k, bigP))
	}
	return x
}

func genHistory() *rapid.Generator[[]chOp] {
	return rapid.Custom(func(t *rapid.T) []chOp {
		n := rapid.IntRange(0, 200).Draw(t, "steps")
		if rapid.IntRange(0, 2).Draw(t, "short") != 0 {
			n = rapid.IntRange(0, 40).Draw(t, "fewsteps")
		}
		ops := make([]chOp, 0, n)
		for i := 0; i < n; i++ {
			kind := rapid.SampledFrom([]string{"elem", "elem", "elems", "hash", "bn254", "cap", "ext", "exts", "get", "get", "getn", "getext", "gethash"}).Draw(t, "op")
			o := chOp{Op: kind}
			vals := func(k int) {
				for j := 0; j < k; j++ {
					o.Vals = append(o.Vals, genObsVal(t).String())
				}
			}
			switch kind {
			case "elem":
				vals(1)
			case "elems":
				vals(rapid.IntRange(0, 20).Draw(t, "n"))
			case "hash":
				vals(4)
			case "bn254":
				o.Vals = []string{genHashVal().Draw(t, "h").String()}
			case "cap":
				k := rapid.IntRange(1, 16).Draw(t, "n")
				for j := 0; j < k; j++ {
					o.Vals = append(o.Vals, genHashVal().Draw(t, "h").String())
				}
			case "ext":
				vals(2)
			case "exts":
				vals(2 * rapid.IntRange(0, 10).Draw(t, "n"))
			case "getn":
				o.N = rapid.IntRange(0, 20).Draw(t, "n")
			}
			ops = append(ops, o)
		}
		return ops
	})
}

func historyFeatures(ops []chOp) (obsAfterSqueeze, crossesRate bool, squeezes int) {
	squeezed := false
	pending := 0
	for _, o := range ops {
		switch o.Op {
		case "get", "getn", "getext", "gethash":
			if o.Op != "getn" || o.N > 0 {
				squeezed = true
				squeezes++
				pending = 0
			}
		default:
			n := len(o.Vals)
			if o.Op == "bn254" || o.Op == "cap" {
				n *= 5
			}
			if n > 0 && squeezed {
				obsAfterSqueeze = true
			}
			pending += n
			if pending > 8 {
				crossesRate = true
			}
		}
	}
	return
}

// ----- whole-transcript part -----

type challCircuit struct {
	PublicInputs      []gl.Variable
	Proof             variables.Proof
	VerifierData      variables.VerifierOnlyCircuitData
	CommonCircuitData types.CommonCircuitData `gnark:"-"`
	Out               *[]frontend.Variable    `gnark:"-"`
	PowBits           uint64                  `gnark:"-"` // >0: also assert the PoW condition with this difficulty
	Repeat            int                     `gnark:"-"` // number of transcripts derived on the same VerifierChip (the last one is returned)
}

func (c *challCircuit) Define(api frontend.API) error {
	chip := verifier.NewVerifierChip(api, c.CommonCircuitData)
	pih := chip.GetPublicInputsHash(c.PublicInputs)
	ch := chip.GetChallenges(c.Proof, pih, c.VerifierData)
	for i := 1; i < c.Repeat; i++ {
		// a second proof's transcript on the same chip must start from a fresh sponge
		ch = chip.GetChallenges(c.Proof, pih, c.VerifierData)
	}
	var o []frontend.Variable
	o = append(o, limbs(ch.PlonkBetas)...)
	o = append(o, limbs(ch.PlonkGammas)...)
	o = append(o, limbs(ch.PlonkAlphas)...)
	o = append(o, ch.PlonkZeta[0].Limb, ch.PlonkZeta[1].Limb)
	o = append(o, ch.FriChallenges.FriAlpha[0].Limb, ch.FriChallenges.FriAlpha[1].Limb)
	for _, b := range ch.FriChallenges.FriBetas {
		o = append(o, b[0].Limb, b[1].Limb)
	}
	o = append(o, ch.FriChallenges.FriPowResponse.Limb)
	o = append(o, limbs(ch.FriChallenges.FriQueryIndices)...)
	*c.Out = o
	if c.PowBits > 0 {
		cd := c.CommonCircuitData
		fri.NewChip(api, &cd, &cd.FriParams).VerifLeadingZeros(ch.FriChallenges.FriPowResponse, types.FriConfig{ProofOfWorkBits: c.PowBits})
	}
	return nil
}

func refChallengeVector(c *ref.Common, p *ref.ProofWithPIs, v *ref.VerifierOnly) []*big.Int {
	ch := ref.GetChallenges(c, p, v, ref.HashNoPadGL(p.PublicInputs))
	var o []*big.Int
	o = append(o, u64s(ch.Betas)...)
	o = append(o, u64s(ch.Gammas)...)
	o = append(o, u64s(ch.Alphas)...)
	o = append(o, bu(ch.Zeta[0]), bu(ch.Zeta[1]), bu(ch.FriAlpha[0]), bu(ch.FriAlpha[1]))
	for _, b := range ch.FriBetas {
		o = append(o, bu(b[0]), bu(b[1]))
	}
	o = append(o, bu(ch.PowResponse))
	return o // query indices are compared separately (circuit returns unreduced challenges)
}

type c11Transcript struct {
	Base   string `json:"base"`
	Seed   string `json:"seed"`             // "" = the real proof; otherwise every number/hash is re-drawn from this seed
	Repeat int    `json:"repeat,omitempty"` // derive the transcript this many times on one VerifierChip and compare the last
	// Cfg overrides configuration values of the circuit description (both copies): "proof_of_work_bits"
	// (not part of plonky2's transcript), "num_query_rounds" (number of indices drawn at the end)
	Cfg map[string]uint64 `json:"config_override,omitempty"`
}

// randomiseDoc replaces every number by a pseudo-random canonical Goldilocks element and every
// decimal string by a pseudo-random field element, derived from seed (a pure function of it).
func randomiseDoc(v any, st *uint64) any {
	next := func() uint64 {
		*st ^= *st << 13
		*st ^= *st >> 7
		*st ^= *st << 17
		return *st
	}
	switch x := v.(type) {
	case map[string]any:
		// deterministic key order
		keys := make([]string, 0, len(x))
		for k := range x {
			keys = append(keys, k)
		}
		sortStrings(keys)
		for _, k := range keys {
			x[k] = randomiseDoc(x[k], st)
		}
		return x
	case []any:
		for i := range x {
			x[i] = randomiseDoc(x[i], st)
		}
		return x
	case json.Number:
		return json.Number(fmt.Sprint(next() % ref.P))
	case string:
		b := new(big.Int).SetUint64(next())
		for i := 0; i < 3; i++ {
			b.Lsh(b, 64)
			b.Add(b, new(big.Int).SetUint64(next()))
		}
		return b.Mod(b, bigR).String()
	}
	return v
}

func c11TranscriptRun(a c11Transcript) caseResult {
	raw, err := os.ReadFile(corp.Path(a.Base, "proof.json"))
	if err != nil {
		panic(err)
	}
	vraw, _ := os.ReadFile(corp.Path(a.Base, "verifier_data.json"))
	if a.Seed != "" {
		st := bs(a.Seed).Uint64() | 1
		rnd := func(b []byte) []byte {
			d := json.NewDecoder(bytes.NewReader(b))
			d.UseNumber()
			var doc any
			if err := d.Decode(&doc); err != nil {
				panic(err)
			}
			out, _ := json.Marshal(randomiseDoc(doc, &st))
			return out
		}
		raw, vraw = rnd(raw), rnd(vraw)
	}
	if v, ok := a.Cfg["num_public_inputs"]; ok {
		// a circuit with v public inputs: the proof document carries exactly v of them (v = 0: none)
		d := json.NewDecoder(bytes.NewReader(raw))
		d.UseNumber()
		var doc map[string]any
		if err := d.Decode(&doc); err != nil {
			panic(err)
		}
		pis, _ := doc["public_inputs"].([]any)
		for uint64(len(pis)) < v {
			pis = append(pis, json.Number(fmt.Sprint(len(pis)+1)))
		}
		doc["public_inputs"] = pis[:v]
		raw, _ = json.Marshal(doc)
	}
	var rp ref.ProofWithPIs
	var rv ref.VerifierOnly
	var rc ref.Common
	if err := json.Unmarshal(raw, &rp); err != nil {
		panic(err)
	}
	json.Unmarshal(vraw, &rv)
	ref.LoadJSON(corp.Path(a.Base, "common_data.json"), &rc)
	pw, _ := variables.DeserializeProofWithPublicInputs(types.ReadProofWithPublicInputsFromRequest(raw))
	vd := variables.DeserializeVerifierOnlyCircuitData(types.ReadVerifierOnlyCircuitDataFromRequest(vraw))
	cd := types.ReadCommonCircuitData(corp.Path(a.Base, "common_data.json"))
	if v, ok := a.Cfg["proof_of_work_bits"]; ok {
		cd.Config.FriConfig.ProofOfWorkBits, cd.FriParams.Config.ProofOfWorkBits = v, v
		rc.Config.FriConfig.ProofOfWorkBits, rc.FriParams.Config.ProofOfWorkBits = v, v
	}
	if v, ok := a.Cfg["num_public_inputs"]; ok {
		cd.NumPublicInputs, rc.NumPublicInputs = v, v
	}
	if v, ok := a.Cfg["num_query_rounds"]; ok {
		cd.Config.FriConfig.NumQueryRounds, cd.FriParams.Config.NumQueryRounds = v, v
		rc.Config.FriConfig.NumQueryRounds, rc.FriParams.Config.NumQueryRounds = v, v
	}
	mk := func(out *[]frontend.Variable) *challCircuit {
		pw2, _ := variables.DeserializeProofWithPublicInputs(types.ReadProofWithPublicInputsFromRequest(raw))
		return &challCircuit{PublicInputs: pw2.PublicInputs, Proof: pw2.Proof, VerifierData: variables.DeserializeVerifierOnlyCircuitData(types.ReadVerifierOnlyCircuitDataFromRequest(vraw)), CommonCircuitData: cd, Out: out, Repeat: a.Repeat}
	}
	_, _ = pw, vd
	var outs []frontend.Variable
	res := eng.Run(mk(&outs), mk(new([]frontend.Variable)), eng.Options{Mode: eng.ModeNative})
	if res.Outcome != eng.Accept {
		return caseResult{Viol: "transcript/not-accepted", Desc: fmt.Sprintf("GetChallenges on %s (seed %q): %s", a.Base, a.Seed, fmtRes(res))}
	}
	want := refChallengeVector(&rc, &rp, &rv)
	names := []string{"beta0", "beta1", "gamma0", "gamma1", "alpha0", "alpha1", "zeta.0", "zeta.1", "fri_alpha.0", "fri_alpha.1", "fri_beta0.0", "fri_beta0.1", "fri_beta1.0", "fri_beta1.1", "pow_response"}
	for i := range want {
		got := eng.ValueOf(outs[i])
		if got.Cmp(want[i]) != 0 {
			n := fmt.Sprint(i)
			if i < len(names) {
				n = names[i]
			}
			return caseResult{Viol: "transcript/" + n, Desc: fmt.Sprintf("%s (seed %q): challenge %s = %s, plonky2 reference = %s", a.Base, a.Seed, n, got, want[i])}
		}
	}
	// query indices: the circuit hands out raw challenges; the index is their low lde bits
	ch := ref.GetChallenges(&rc, &rp, &rv, ref.HashNoPadGL(rp.PublicInputs))
	lde := uint64(1) << (rc.FriParams.DegreeBits + rc.FriParams.Config.RateBits)
	qi := outs[len(want):]
	if len(qi) != len(ch.QueryIndices) {
		return caseResult{Viol: "transcript/query-count", Desc: fmt.Sprintf("%d query indices, reference %d", len(qi), len(ch.QueryIndices))}
	}
	for i := range qi {
		if eng.ValueOf(qi[i]).Uint64()%lde != ch.QueryIndices[i] {
			return caseResult{Viol: "transcript/query-index", Desc: fmt.Sprintf("%s (seed %q): query index %d differs from the reference", a.Base, a.Seed, i)}
		}
	}
	return caseResult{Info: map[string]any{"challenges_compared": len(want) + len(qi)}}
}

func TestC11(t *testing.T) {
	s := newSuite("C11")
	r := s.r
	defer r.Flush()
	r.Rule("(1) histories of 0..200 challenger operations drawn by rapid from {ObserveElement, ObserveElements, ObserveHash, ObserveBN254Hash, ObserveCap, ObserveExtensionElement(s), GetChallenge, GetNChallenges, GetExtensionChallenge, GetHash} with canonical and value+k*p operands, executed in one circuit and compared squeeze by squeeze with the reference duplex challenger (model-based / stateful testing; the whole history shrinks as one value); a quarter of the histories is split at random over two challengers living in the same circuit, each compared with its own model.  (2) VerifierChip.GetChallenges on the five real proofs and on transcripts of the same shape in which every field element and hash is re-drawn, compared with the reference transcript (betas, gammas, alphas, zeta, FRI alpha, FRI betas, PoW response, query indices); in part of the cases the transcript is derived two or three times on the same VerifierChip and the last result is compared (no state may leak between transcripts); a third of the transcripts uses a configuration variant (proof_of_work_bits in {0, 1, 15, 17, 40, 63} - the difficulty is not part of plonky2's transcript - 1..40 query rounds, or 0, 1, 7, 8, 9, 120 public inputs).  (3) metamorphic: one observed value of a history changed => every squeeze after it changes, none before.  Non-trivial history = contains an observation after a squeeze and more than 8 pending observed elements (crosses the rate boundary); distinct = history.")
	r.Assume("reference Poseidon/challenger (validated by accepting the real proofs and reproducing the challenge constants of tests/fri_test.go)")

	s.on("history", func(b json.RawMessage) caseResult {
		h := unmarshal[c11Hist](b)
		res, out := runHistory(h)
		oas, cr, sq := historyFeatures(h.Ops)
		if res.Outcome != eng.Accept {
			return caseResult{Viol: "history/not-accepted", Desc: fmt.Sprintf("history of %d ops: %s", len(h.Ops), fmtRes(res))}
		}
		want := modelHistory(h)
		if len(out) != len(want) {
			return caseResult{Viol: "history/squeeze-count", Desc: fmt.Sprintf("circuit squeezed %d values, model %d", len(out), len(want))}
		}
		for i := range want {
			if out[i].Cmp(want[i]) != 0 {
				return caseResult{Viol: "history/challenge-mismatch", Desc: fmt.Sprintf("history of %d ops: squeezed value #%d = %s, plonky2 duplex challenger gives %s", len(h.Ops), i, out[i], want[i])}
			}
		}
		return caseResult{Trivial: !(oas && cr), Info: map[string]any{"ops": len(h.Ops), "squeezes": sq, "values": len(want), "observe_after_squeeze": oas, "crosses_rate": cr}}
	})
	s.on("meta", func(b json.RawMessage) caseResult {
		type metaArgs struct {
			H    c11Hist `json:"h"`
			Op   int     `json:"op"`
			Val  int     `json:"val"`
			With string  `json:"with"`
		}
		a := unmarshal[metaArgs](b)
		if a.Op >= len(a.H.Ops) || a.Val >= len(a.H.Ops[a.Op].Vals) {
			return caseResult{Trivial: true}
		}
		old := bs(a.H.Ops[a.Op].Vals[a.Val])
		nw := bs(a.With)
		isHash := a.H.Ops[a.Op].Op == "bn254" || a.H.Ops[a.Op].Op == "cap"
		if (!isHash && ref.FromBig(old) == ref.FromBig(nw)) || (isHash && old.Cmp(nw) == 0) {
			return caseResult{Trivial: true}
		}
		_, out1 := runHistory(a.H)
		h2 := a.H
		h2.Ops = append([]chOp{}, a.H.Ops...)
		o := h2.Ops[a.Op]
		o.Vals = append([]string{}, o.Vals...)
		o.Vals[a.Val] = a.With
		h2.Ops[a.Op] = o
		_, out2 := runHistory(h2)
		// number of squeezed values before op
		before := len(modelHistory(c11Hist{Ops: a.H.Ops[:a.Op]}))
		if len(out1) != len(out2) {
			return caseResult{Viol: "meta/count", Desc: "squeeze counts differ"}
		}
		for i := range out1 {
			same := out1[i].Cmp(out2[i]) == 0
			if i < before && !same {
				return caseResult{Viol: "meta/earlier-changed", Desc: fmt.Sprintf("changing observation %d.%d changed the earlier challenge #%d", a.Op, a.Val, i)}
			}
			if i >= before && same {
				return caseResult{Viol: "meta/later-unchanged", Desc: fmt.Sprintf("changing observed value %d of op %d (%s: %s -> %s) left the later challenge #%d unchanged (%s)", a.Val, a.Op, a.H.Ops[a.Op].Op, old, nw, i, out1[i])}
			}
		}
		return caseResult{Trivial: len(out1) == before, Info: map[string]any{"challenges_before": before, "after": len(out1) - before}}
	})
	s.on("transcript", func(b json.RawMessage) caseResult { return c11TranscriptRun(unmarshal[c11Transcript](b)) })
	if s.replay(t) {
		return
	}

	rapidCheck(t, "history", tierN(320, 5000), func(rt *rapid.T) {
		ops := genHistory().Draw(rt, "history")
		class := "history"
		if rapid.IntRange(0, 3).Draw(rt, "two") == 0 {
			// two challengers living in one circuit, their operations interleaved: each must behave as if alone
			for i := range ops {
				ops[i].Chip = rapid.IntRange(0, 1).Draw(rt, "challenger")
			}
			class = "history/two-interleaved-challengers"
		}
		s.exec(rt, "history", c11Hist{int(genMode().Draw(rt, "mode")), ops}, class)
	})
	rapidCheck(t, "meta", tierN(120, 1500), func(rt *rapid.T) {
		ops := genHistory().Draw(rt, "history")
		var obs []int
		for i, o := range ops {
			if len(o.Vals) > 0 {
				obs = append(obs, i)
			}
		}
		if len(obs) == 0 {
			ops = append(ops, chOp{Op: "elem", Vals: []string{"5"}}, chOp{Op: "get"})
			obs = []int{len(ops) - 2}
		}
		oi := rapid.SampledFrom(obs).Draw(rt, "op")
		vi := rapid.IntRange(0, len(ops[oi].Vals)-1).Draw(rt, "val")
		var with *big.Int
		if ops[oi].Op == "bn254" || ops[oi].Op == "cap" {
			with = genHashVal().Draw(rt, "with")
		} else {
			with = bu(genGL().Draw(rt, "with"))
		}
		ops = append(ops, chOp{Op: "getn", N: 3})
		s.exec(rt, "meta", map[string]any{"h": c11Hist{int(eng.ModeNative), ops}, "op": oi, "val": vi, "with": with.String()}, "metamorphic")
	})
	for i, b := range corp.Names {
		if mine(i) {
			s.exec(t, "transcript", c11Transcript{Base: b, Repeat: 1 + i%2}, "transcript/real")
		}
	}
	rapidCheck(t, "transcript", tierN(28, 600), func(rt *rapid.T) {
		b := rapid.SampledFrom(corp.Names).Draw(rt, "base")
		seed := rapid.Uint64Range(1, 1<<62).Draw(rt, "seed")
		rep := rapid.SampledFrom([]int{1, 1, 2, 3}).Draw(rt, "transcripts_on_one_chip")
		class := "transcript/random-same-shape"
		if rep > 1 {
			class += "/repeated-on-one-chip"
		}
		tc := c11Transcript{Base: b, Seed: fmt.Sprint(seed), Repeat: rep}
		if rapid.IntRange(0, 2).Draw(rt, "cfg") == 0 {
			tc.Cfg = map[string]uint64{}
			switch rapid.IntRange(0, 2).Draw(rt, "which") {
			case 0:
				tc.Cfg["proof_of_work_bits"] = rapid.SampledFrom([]uint64{0, 0, 1, 15, 17, 40, 63}).Draw(rt, "pow_bits")
			case 1:
				tc.Cfg["num_public_inputs"] = rapid.SampledFrom([]uint64{0, 0, 1, 7, 8, 9, 120}).Draw(rt, "public_inputs")
			default:
				tc.Cfg["num_query_rounds"] = uint64(rapid.IntRange(1, 40).Draw(rt, "rounds"))
			}
			class += "/config-variant"
		}
		s.exec(rt, "transcript", tc, class)
	})
	// deterministic: every real proof also against the configuration without grinding
	for i, b := range corp.Names {
		if mine(i + 7) {
			s.exec(t, "transcript", c11Transcript{Base: b, Cfg: map[string]uint64{"proof_of_work_bits": 0}}, "transcript/real/config-variant")
		}
		if mine(i + 11) {
			s.exec(t, "transcript", c11Transcript{Base: b, Seed: fmt.Sprint(1000 + i), Cfg: map[string]uint64{"num_public_inputs": 0}}, "transcript/random-same-shape/config-variant")
		}
	}
	r.Done()
}

package props

import (
	"fmt"
	"math/big"
	"sort"
	"strings"
	"testing"

	"verif/corp"
	"verif/cs"
	"verif/eng"
	"verif/rec"
	"verif/wv"

	"pgregory.net/rapid"
)

// C01 Tampered or mismatched proofs are rejected by the verifier circuit.

type c01Case struct {
	Base  string  `json:"base"`
	K     int     `json:"k"`
	Kind  string  `json:"kind"` // "leaf" | "otherkey" | "desc"
	Leaf  string  `json:"leaf,omitempty"`
	Pert  string  `json:"perturbation,omitempty"`
	Rnd   string  `json:"random_value,omitempty"`
	Other string  `json:"other_instance,omitempty"`
	Edit  *cdEdit `json:"edit,omitempty"`
	// Backend "" = evaluation engine; "r1cs"/"scs" = whole circuit compiled with gnark's builder
	// (commit range checker, as deployed) and the perturbed witness handed to gnark's solver
	Backend string `json:"backend,omitempty"`
}

var c01Compiled = map[string]*cs.System{}

func c01CompiledSystem(base string, k int, backend string) (*cs.System, error) {
	key := fmt.Sprintf("%s/%d/%s", base, k, backend)
	if s, ok := c01Compiled[key]; ok {
		return s, nil
	}
	kind := cs.R1CS
	if backend == "scs" {
		kind = cs.SCS
	}
	s, err := cs.CompileCircuit(kind, cs.MechCommit, wv.Load(base, k).PlainTemplate())
	if err == nil {
		c01Compiled[key] = s
	}
	return s, err
}

func (c c01Case) key() string {
	switch c.Kind {
	case "leaf":
		return fmt.Sprintf("%s/k=%d/%s/%s", c.Base, c.K, c.Leaf, c.Pert)
	case "otherkey":
		return fmt.Sprintf("%s/k=%d/key-of-%s", c.Base, c.K, c.Other)
	}
	return fmt.Sprintf("%s/k=%d/desc/%s", c.Base, c.K, c.Edit)
}

// c01Run returns (violation?, trivial?, description, result).
func c01Run(c c01Case) (viol, trivial bool, desc string, res eng.Result) {
	rn := getRunner(c.Base, c.K)
	switch c.Kind {
	case "leaf":
		i, ok := rn.byName[c.Leaf]
		if !ok {
			panic("unknown leaf " + c.Leaf)
		}
		var rnd *big.Int
		if c.Rnd != "" {
			rnd = bs(c.Rnd)
		}
		muts := rn.perturb(i, c.Pert, rnd)
		if muts == nil {
			return false, true, "", res
		}
		if c.Backend != "" {
			sys, err := c01CompiledSystem(c.Base, c.K, c.Backend)
			if err != nil {
				res.Outcome, res.Msg = eng.Refused, "compile: "+err.Error()
				return false, false, "", res
			}
			for j, x := range muts {
				wv.Set(rn.vals[j], x)
			}
			serr := sys.SolveCircuit(rn.asg, cs.TolerantHints()...)
			for j := range muts {
				wv.Set(rn.vals[j], rn.orig[j])
			}
			if serr == nil {
				res.Outcome = eng.Accept
				return true, false, fmt.Sprintf("%s: compiled %s system is SOLVED by the witness with leaf %s (%s) perturbed by %s", rn.in.Name(), c.Backend, c.Leaf, rn.orig[i], c.Pert), res
			}
			res.Outcome, res.Msg = eng.Reject, truncate(serr.Error(), 100)
			return false, false, "", res
		}
		res = rn.run(muts, eng.Options{Mode: eng.ModeNative})
		if res.Outcome != eng.Accept {
			return false, false, "", res
		}
		if r2 := rn.confirmAccept(muts); r2.Outcome != eng.Accept {
			return false, false, "native-only accept: " + fmtRes(r2), res
		}
		return true, false, fmt.Sprintf("%s: leaf %s (%s) perturbed by %s is ACCEPTED", rn.in.Name(), c.Leaf, rn.orig[i], c.Pert), res
	case "otherkey":
		other := getRunner(c.Other, c.K)
		muts := map[int]*big.Int{}
		differs := false
		for i, l := range rn.leaves {
			if strings.HasPrefix(l.Name, "VerifierData_") {
				j := other.byName[l.Name]
				muts[i] = other.orig[j]
				if other.orig[j].Cmp(rn.orig[i]) != 0 {
					differs = true
				}
			}
		}
		if !differs {
			return false, true, "", res
		}
		res = rn.run(muts, eng.Options{Mode: eng.ModeNative})
		if res.Outcome != eng.Accept {
			return false, false, "", res
		}
		if r2 := rn.confirmAccept(muts); r2.Outcome != eng.Accept {
			return false, false, "native-only accept", res
		}
		return true, false, fmt.Sprintf("%s verified against the verifier data of %s is ACCEPTED", rn.in.Name(), c.Other), res
	case "desc":
		cd, rc, changed, err := editedCommon(c.Base, *c.Edit, c.K)
		if !changed {
			return false, true, "", res
		}
		if err != nil {
			res.Outcome, res.Msg = eng.Refused, err.Error()
			return false, false, "", res
		}
		if refVerdict(&rc, &rn.in.Ref.P, &rn.in.Ref.V) == nil {
			return false, true, "reference still accepts (proof does not depend on this constant)", res
		}
		tmpl := rn.in.Circuit()
		tmpl.CommonCircuitData = cd
		res = eng.Run(tmpl, rn.asg, eng.Options{Mode: eng.ModeNative})
		if res.Outcome != eng.Accept {
			return false, false, "", res
		}
		if r2 := eng.Run(tmpl, rn.asg, eng.Options{Mode: eng.ModePlain}); r2.Outcome != eng.Accept {
			return false, false, "native-only accept", res
		}
		return true, false, fmt.Sprintf("%s is ACCEPTED under the description edit %s although the reference verifier rejects it", rn.in.Name(), c.Edit), res
	}
	panic("bad kind")
}

func roundBucket(r, k int) string {
	switch {
	case r < 0:
		return "-"
	case r == 0:
		return "first-round"
	case r == k-1:
		return "last-round"
	}
	return "mid-round"
}

func c01Eligible(l wv.Leaf) bool {
	// single entries of the verifier key's cap are property C04's domain
	return !strings.HasPrefix(l.Name, "VerifierData_ConstantSigmasCap")
}

var c01QuickCompiledKinds = map[string]bool{"PublicInputs": true, "Proof_WiresCap": true, "Proof_Openings_Wires": true, "Proof_Openings_PlonkSigmas": true, "Proof_Openings_QuotientPolys": true,
	"Proof_OpeningProof_CommitPhaseMerkleCaps": true, "Proof_OpeningProof_FinalPoly_Coeffs": true, "Proof_OpeningProof_PowWitness": true, "VerifierData_CircuitDigest": true,
	"Proof_OpeningProof_QueryRoundProofs_InitialTreesProof_EvalsProofs[0]_MerkleProof_Siblings": true, "Proof_OpeningProof_QueryRoundProofs_InitialTreesProof_EvalsProofs[2]_Elements": true,
	"Proof_OpeningProof_QueryRoundProofs_Steps[0]_Evals": true, "Proof_OpeningProof_QueryRoundProofs_Steps[1]_MerkleProof_Siblings": true}

func TestC01(t *testing.T) {
	r := rec.New("C01")
	defer r.Flush()
	r.Rule("(a) leaf perturbations: leaves of proof, public inputs and circuit digest are partitioned into strata (leaf kind incl. tree/step index x round bucket {first,mid,last} x position in list {first,mid,last}); quick: per stratum of A1/k=28, B1/k=28 and two prefix instances rapid draws leaves and a perturbation in {+1,-1,random,zero,swap-with-neighbour} (computed mod p resp. mod r); thorough: every leaf position of A1 and B1 once plus all five perturbations on a sample, other proofs stratified.  (b) the verifier data of the other inner circuit.  (c) single-constant edits of the circuit description (each of 80 k_is +-1/random/swapped, every numeric parameter of every gate id +-1, gate replaced by another, selector indices and group bounds +-1, degree bits, quotient degree factor, partial products, constants, challenges, wires) whose edited description the reference verifier rejects.  (a') one perturbed leaf of every leaf kind handed to gnark's own solver on the whole circuit compiled to R1CS (and SCS in the thorough tier) with the commit range checker, i.e. the deployed proof system.  Oracle: whole VerifierCircuit must not ACCEPT (REJECT or REFUSED both fine; candidates are re-checked under bit decomposition).  Trivial (not counted) = perturbation equal to the original, or description edit the reference still accepts.  Distinct = (instance, leaf or edit, perturbation).  Configuration variants: the leaf strata outside the query rounds are also perturbed for proofs checked against their description with the proof-of-work difficulty lowered (0; thorough 0, 1, 8), which remain valid instances.")
	r.Assume("reference verifier (accepts all five real proofs, KATs) labels description edits", "a perturbed proof verifying by chance has negligible probability (2^-100 soundness target)")

	var rp c01Case
	if is, err := rec.LoadReplay(&rp); is {
		if err != nil {
			r.Infra(t, "replay: %v", err)
		}
		v, _, d, _ := c01Run(rp)
		r.Case("replay", true, rp.key(), func() any { return rp })
		if v {
			r.Fail(t, "C01/"+rp.key(), rp, "%s", d)
		}
		r.Done()
		return
	}

	sites := map[string]int{}
	exec := func(tb rec.TB, c c01Case, class string) {
		viol, trivial, d, res := c01Run(c)
		if !trivial {
			sites[res.Outcome.String()+" @ "+res.Site]++
		}
		r.Case(class, !trivial, c.key(), func() any {
			return map[string]any{"case": c, "outcome": res.Outcome.String(), "rejected_at": res.Site, "msg": truncate(res.Msg, 80)}
		})
		if viol {
			r.Fail(tb, "C01/"+c.key(), c, "%s", d)
		}
	}

	// ---- (a) leaves ----
	type stratum struct {
		name string
		idx  []int
	}
	strataOf := func(rn *runner) []stratum {
		m := map[string][]int{}
		for i, l := range rn.leaves {
			if !c01Eligible(l) {
				continue
			}
			k := l.Kind + "|" + roundBucket(l.Round, rn.in.K) + "|" + l.Pos
			m[k] = append(m[k], i)
		}
		var ks []string
		for k := range m {
			ks = append(ks, k)
		}
		sort.Strings(ks)
		out := make([]stratum, len(ks))
		for i, k := range ks {
			out[i] = stratum{k, m[k]}
		}
		return out
	}
	item := 0
	const compiledShard = 1 // this shard compiles the whole circuit; it takes no share of the other work
	mine := func(i int) bool { return rec.MineExcept(i, compiledShard) }
	outsideRoundsOnly := false
	leafSweep := func(base string, k, perStratum int) {
		rn := getRunner(base, k)
		strata := strataOf(rn)
		r.Extra("strata:"+rn.in.Name(), fmt.Sprint(len(strata)))
		for _, s := range strata {
			if outsideRoundsOnly && !strings.Contains(s.name, "|-|") {
				continue
			}
			item++
			if !mine(item) {
				continue
			}
			s := s
			rec.SetRapid("leaf/"+rn.in.Name()+"/"+s.name, perStratum)
			rapid.Check(t, func(rt *rapid.T) {
				i := rapid.SampledFrom(s.idx).Draw(rt, "leaf")
				p := rapid.SampledFrom(perturbations).Draw(rt, "perturbation")
				c := c01Case{Base: base, K: k, Kind: "leaf", Leaf: rn.leaves[i].Name, Pert: p}
				if p == "random" {
					c.Rnd = genBigBelow(modulusFor(rn.leaves[i])).Draw(rt, "value").String()
				}
				exec(rt, c, "leaf/"+strings.SplitN(s.name, "|", 2)[0])
			})
		}
	}
	if !rec.Thorough() {
		leafSweep("A1", 28, 1)
		leafSweep("B1", 28, 1)
		// the same proof against a description with proof-of-work difficulty 0 (everything outside the query rounds)
		outsideRoundsOnly = true
		leafSweep("A1@pow0", 2, 1)
		outsideRoundsOnly = false
	} else {
		for _, v := range []string{"A1@pow0", "B1@pow0", "A2@pow1", "B3@pow8"} {
			leafSweep(v, 2, 2)
		}
		for _, b := range corp.Names {
			leafSweep(b, 28, 3)
			leafSweep(b, 1, 2)
			leafSweep(b, 9, 2)
		}
		// every leaf position of A1 and B1 with one perturbation (rotating), sharded
		for _, b := range []string{"A1", "B1"} {
			rn := getRunner(b, 28)
			for i, l := range rn.leaves {
				if !c01Eligible(l) {
					continue
				}
				item++
				if !mine(item) {
					continue
				}
				p := []string{"+1", "-1", "zero", "swap"}[i%4]
				exec(t, c01Case{Base: b, K: 28, Kind: "leaf", Leaf: l.Name, Pert: p}, "all-positions/"+l.Kind)
			}
		}
	}

	// ---- (a') the same kind of perturbation handed to gnark's solver on the compiled circuit ----
	{
		base, k := "A1", 1
		backends := []string{"r1cs"}
		if rec.Thorough() {
			backends = []string{"r1cs", "scs"}
		}
		for bi, backend := range backends {
			item++
			if rec.ShardIdx() != (compiledShard+bi)%rec.NShards() {
				continue
			}
			rn := getRunner(base, k)
			seen := map[string]int{}
			for i, l := range rn.leaves {
				if !c01Eligible(l) {
					continue
				}
				lim := 1
				if rec.Thorough() {
					lim = 6
				}
				if seen[l.Kind] >= lim {
					continue
				}
				if !rec.Thorough() && !c01QuickCompiledKinds[l.Kind] {
					continue // each rejected solve costs ~5 s on the compiled system; the thorough tier takes every kind
				}
				seen[l.Kind]++
				p := []string{"+1", "-1", "zero", "swap", "+1", "-1"}[(i+seen[l.Kind])%6]
				exec(t, c01Case{Base: base, K: k, Kind: "leaf", Leaf: l.Name, Pert: p, Backend: backend}, "compiled-"+backend+"/"+l.Kind)
			}
		}
	}

	// ---- (b) other circuit's key ----
	pairs := [][2]string{{"A1", "B1"}, {"B1", "A1"}, {"A2", "B3"}, {"B2", "A2"}}
	for _, p := range pairs {
		for _, k := range []int{28, 3} {
			item++
			if mine(item) {
				exec(t, c01Case{Base: p[0], K: k, Kind: "otherkey", Other: p[1]}, "other-circuit-key")
			}
		}
	}

	// ---- (c) description edits ----
	descBases := []string{"A1", "B2"}
	if rec.Thorough() {
		descBases = corp.Names
	}
	for _, b := range descBases {
		doc := loadGeneric(corp.Path(b, "common_data.json"))
		edits := enumerateEdits(doc, nil)
		r.Extra("description_edits_enumerated:"+b, fmt.Sprint(len(edits)))
		if rec.Thorough() {
			for _, e := range append(append([]cdEdit{}, edits...), friEdits(doc)...) {
				item++
				if !mine(item) {
					continue
				}
				e := e
				exec(t, c01Case{Base: b, K: 28, Kind: "desc", Edit: &e}, "desc/"+e.Path[0])
			}
			continue
		}
		if b == "A1" {
			// deterministic backbone of the quick tier: every selector/scalar edit, and the +1 variant of
			// every coset shift and of every gate parameter, once each
			for _, e := range edits {
				cat := e.Path[0]
				if (cat == "k_is" || cat == "gates") && e.Op != "+1" && e.Op != "param+1" {
					continue
				}
				item++
				if !mine(item) {
					continue
				}
				e := e
				exec(t, c01Case{Base: b, K: 28, Kind: "desc", Edit: &e}, "desc-enumerated/"+cat)
			}
		}
		// FRI part of the description (each copy of the duplicated configuration alone and both together)
		if b == "A1" {
			kk := 3
			for _, e := range friEdits(doc) {
				item++
				if !mine(item) {
					continue
				}
				e := e
				exec(t, c01Case{Base: b, K: kk, Kind: "desc", Edit: &e}, "desc-enumerated/fri-"+e.Path[len(e.Path)-1])
			}
		}
		rec.SetRapid("desc/"+b, rec.Share(70))
		rapid.Check(t, func(rt *rapid.T) {
			var e cdEdit
			if rapid.IntRange(0, 4).Draw(rt, "random-ki") == 0 {
				i := rapid.IntRange(0, 79).Draw(rt, "ki")
				e = cdEdit{Path: []string{"k_is", fmt.Sprint(i)}, Op: "set", Arg: fmt.Sprint(genGL().Draw(rt, "value"))}
			} else {
				// draw the category first so that gates/selectors/scalars are not swamped by the 240 k_is edits
				cat := rapid.SampledFrom([]string{"k_is", "gates", "gates", "selectors_info", "scalar"}).Draw(rt, "category")
				var pool []cdEdit
				for _, x := range edits {
					c := x.Path[0]
					if c != "k_is" && c != "gates" && c != "selectors_info" {
						c = "scalar"
					}
					if c == cat {
						pool = append(pool, x)
					}
				}
				e = pool[rapid.IntRange(0, len(pool)-1).Draw(rt, "edit")]
			}
			k := rapid.SampledFrom([]int{28, 28, 4}).Draw(rt, "k")
			exec(rt, c01Case{Base: b, K: k, Kind: "desc", Edit: &e}, "desc/"+e.Path[0])
		})
	}
	r.Extra("verdict_sites", sites)
	r.Done()
}

func truncate(s string, n int) string {
	if len(s) > n {
		return s[:n] + "..."
	}
	return s
}

package props

import (
	"encoding/json"
	"fmt"
	"math/big"
	"os"
	"testing"

	"verif/corp"
	"verif/eng"
	"verif/gad"
	"verif/ref"

	"github.com/consensys/gnark/frontend"
	gl "github.com/wormhole-foundation/example-near-light-client/goldilocks"
	"github.com/wormhole-foundation/example-near-light-client/plonk"
	"github.com/wormhole-foundation/example-near-light-client/plonk/gates"
	"github.com/wormhole-foundation/example-near-light-client/types"
	"github.com/wormhole-foundation/example-near-light-client/variables"
	"pgregory.net/rapid"
)

// C16 The PLONK check accepts exactly when the vanishing identity holds at zeta.

type plonkShape struct {
	Real          string     `json:"real,omitempty"` // corpus name: use its common data
	Gates         []gateSpec `json:"gates,omitempty"`
	GroupStarts   []uint64   `json:"group_starts,omitempty"`
	GroupEnds     []uint64   `json:"group_ends,omitempty"`
	NumChallenges uint64     `json:"num_challenges,omitempty"`
	NumRouted     uint64     `json:"num_routed_wires,omitempty"`
	NumWires      uint64     `json:"num_wires,omitempty"`
	QDF           uint64     `json:"quotient_degree_factor,omitempty"`
	NumPP         uint64     `json:"num_partial_products,omitempty"`
	NumConstants  uint64     `json:"num_constants,omitempty"`
	NumGateCons   uint64     `json:"num_gate_constraints,omitempty"`
	DegreeBits    uint64     `json:"degree_bits,omitempty"`
	KIs           []uint64   `json:"k_is,omitempty"`
}

func (s plonkShape) build() (types.CommonCircuitData, *ref.Common, []ref.Gate, error) {
	if s.Real != "" {
		cd := types.ReadCommonCircuitData(corp.Path(s.Real, "common_data.json"))
		rc := &ref.Common{}
		ref.LoadJSON(corp.Path(s.Real, "common_data.json"), rc)
		var gs []ref.Gate
		for _, id := range rc.Gates {
			g, err := ref.ParseGate(id)
			if err != nil {
				return cd, nil, nil, err
			}
			gs = append(gs, g)
		}
		return cd, rc, gs, nil
	}
	// The synthetic description reaches the circuit the way a real one does: as a plonky2-style
	// common_circuit_data.json read by the repository's reader.  Fields the PLONK check must not
	// depend on (and the duplicated copies of configuration values) carry decoy values that
	// differ from the ones it must use.
	selIdx := make([]uint64, len(s.Gates))
	var gs []ref.Gate
	var ids []string
	for i, g := range s.Gates {
		ids = append(ids, g.id())
		rg, err := ref.ParseGate(g.id())
		if err != nil {
			return types.CommonCircuitData{}, nil, nil, err
		}
		gs = append(gs, rg)
		for gi := range s.GroupStarts {
			if uint64(i) >= s.GroupStarts[gi] && uint64(i) < s.GroupEnds[gi] {
				selIdx[i] = uint64(gi)
			}
		}
	}
	groups := []map[string]any{}
	for gi := range s.GroupStarts {
		groups = append(groups, map[string]any{"start": s.GroupStarts[gi], "end": s.GroupEnds[gi]})
	}
	d := uint64(len(s.Gates))%3 + 1
	fc := func(off uint64) map[string]any {
		return map[string]any{"rate_bits": 3 + off, "cap_height": 4, "proof_of_work_bits": 16 + off,
			"reduction_strategy": map[string]any{"ConstantArityBits": []uint64{4, 5}}, "num_query_rounds": 28 - off}
	}
	kis := s.KIs
	if kis == nil {
		kis = []uint64{}
	}
	doc := map[string]any{
		"config": map[string]any{"num_wires": s.NumWires, "num_routed_wires": s.NumRouted, "num_constants": s.NumConstants + d,
			"use_base_arithmetic_gate": true, "security_bits": 100, "num_challenges": s.NumChallenges, "zero_knowledge": false,
			"max_quotient_degree_factor": s.QDF + d, "fri_config": fc(0)},
		"fri_params":             map[string]any{"config": fc(d), "hiding": false, "degree_bits": s.DegreeBits, "reduction_arity_bits": []uint64{4, 4}},
		"gates":                  ids,
		"selectors_info":         map[string]any{"selector_indices": selIdx, "groups": groups},
		"quotient_degree_factor": s.QDF, "num_gate_constraints": s.NumGateCons, "num_constants": s.NumConstants,
		"num_public_inputs": 4 + d, "k_is": kis, "num_partial_products": s.NumPP,
		"num_lookup_polys": 0, "num_lookup_selectors": 0, "luts": []any{},
	}
	raw, _ := json.Marshal(doc)
	rc := &ref.Common{}
	if err := json.Unmarshal(raw, rc); err != nil {
		panic(err)
	}
	f, ferr := os.CreateTemp(os.Getenv("VERIF_OUT"), "c16-cd-*.json")
	if ferr != nil {
		panic(ferr)
	}
	f.Write(raw)
	f.Close()
	defer os.Remove(f.Name())
	var cd types.CommonCircuitData
	var rerr error
	func() {
		defer func() {
			if r := recover(); r != nil {
				rerr = fmt.Errorf("reader refused the synthetic description: %v", r)
			}
		}()
		cd = types.ReadCommonCircuitData(f.Name())
	}()
	if rerr != nil {
		return cd, nil, nil, rerr
	}
	return cd, rc, gs, nil
}

type c16Case struct {
	Mode    int         `json:"mode"`
	Shape   plonkShape  `json:"shape"`
	Consts  [][2]uint64 `json:"constants"`
	Sigmas  [][2]uint64 `json:"plonk_sigmas"`
	Wires   [][2]uint64 `json:"wires"`
	Zs      [][2]uint64 `json:"plonk_zs"`
	ZsNext  [][2]uint64 `json:"plonk_zs_next"`
	PPs     [][2]uint64 `json:"partial_products"`
	Quot    [][2]uint64 `json:"quotient_polys"`
	Betas   []uint64    `json:"betas"`
	Gammas  []uint64    `json:"gammas"`
	Alphas  []uint64    `json:"alphas"`
	Zeta    [2]uint64   `json:"zeta"`
	PI      [4]uint64   `json:"pi_hash"`
	What    string      `json:"what"`
	OnlyVan bool        `json:"only_vanishing,omitempty"`      // compare evalVanishingPoly values instead of running Verify
	Repeat  int         `json:"repeat_on_same_chip,omitempty"` // the same PlonkChip performs this many further evaluations first
}

func (c *c16Case) refOpenings() *ref.OpeningSet {
	return &ref.OpeningSet{Constants: c.Consts, PlonkSigmas: c.Sigmas, Wires: c.Wires, PlonkZs: c.Zs, PlonkZsNext: c.ZsNext, PartialProducts: c.PPs, QuotientPolys: c.Quot}
}
func (c *c16Case) refChallenges() *ref.Challenges {
	return &ref.Challenges{Betas: c.Betas, Gammas: c.Gammas, Alphas: c.Alphas, Zeta: toE(c.Zeta)}
}

func (c *c16Case) inputs() []*big.Int {
	var in []*big.Int
	for _, l := range [][][2]uint64{c.Consts, c.Sigmas, c.Wires, c.Zs, c.ZsNext, c.PPs, c.Quot} {
		in = append(in, flatE(toEs(l))...)
	}
	in = append(in, u64s(c.Betas)...)
	in = append(in, u64s(c.Gammas)...)
	in = append(in, u64s(c.Alphas)...)
	in = append(in, bu(c.Zeta[0]), bu(c.Zeta[1]))
	return append(in, u64s(c.PI[:])...)
}

func c16Run(c c16Case) caseResult {
	cd, rc, rgs, err := c.Shape.build()
	if err != nil {
		return caseResult{Viol: "infra/shape", Desc: err.Error()}
	}
	lens := []int{len(c.Consts), len(c.Sigmas), len(c.Wires), len(c.Zs), len(c.ZsNext), len(c.PPs), len(c.Quot)}
	nch := len(c.Betas)
	var vanOut *[]frontend.Variable = new([]frontend.Variable)
	fn := func(api frontend.API, v []frontend.Variable) []frontend.Variable {
		p := 0
		takeEs := func(n int) []gl.QuadraticExtensionVariable {
			var o []gl.QuadraticExtensionVariable
			for i := 0; i < n; i++ {
				o = append(o, qev(v[p], v[p+1]))
				p += 2
			}
			return o
		}
		var os variables.OpeningSet
		os.Constants, os.PlonkSigmas, os.Wires = takeEs(lens[0]), takeEs(lens[1]), takeEs(lens[2])
		os.PlonkZs, os.PlonkZsNext, os.PartialProducts, os.QuotientPolys = takeEs(lens[3]), takeEs(lens[4]), takeEs(lens[5]), takeEs(lens[6])
		var ch variables.ProofChallenges
		ch.PlonkBetas = glvs(v[p : p+nch])
		ch.PlonkGammas = glvs(v[p+nch : p+2*nch])
		ch.PlonkAlphas = glvs(v[p+2*nch : p+3*nch])
		p += 3 * nch
		ch.PlonkZeta = qev(v[p], v[p+1])
		p += 2
		var h [4]gl.Variable
		for i := range h {
			h[i] = glv(v[p+i])
		}
		chip := plonk.NewPlonkChip(api, cd)
		if c.OnlyVan {
			vars := gates.NewEvaluationVars(os.Constants, os.Wires, h)
			for i := 0; i < c.Repeat; i++ {
				chip.VerifEvalVanishingPoly(*vars, ch, os, chip.VerifZetaPowN(ch.PlonkZeta))
			}
			return flatQE(chip.VerifEvalVanishingPoly(*vars, ch, os, chip.VerifZetaPowN(ch.PlonkZeta)))
		}
		for i := 0; i < c.Repeat; i++ {
			chip.Verify(ch, os, h)
		}
		chip.Verify(ch, os, h)
		return nil
	}
	_ = vanOut
	// reference
	var refErr error
	var refVan []ref.E
	func() {
		defer func() {
			if r := recover(); r != nil {
				refErr = fmt.Errorf("reference cannot evaluate: %v", r)
			}
		}()
		if c.OnlyVan {
			refVan = ref.EvalVanishing(rc, rgs, c.refOpenings(), c.refChallenges(), c.PI)
		} else {
			refErr = ref.CheckPlonk(rc, rgs, c.refOpenings(), c.refChallenges(), c.PI)
		}
	}()
	if c.OnlyVan {
		if refErr != nil {
			return caseResult{Trivial: true, Info: refErr.Error()}
		}
		return expectOutputs("evalVanishingPoly", eng.Mode(c.Mode), c.inputs(), fn, flatE(refVan))
	}
	res, _ := gad.Run(eng.Options{Mode: eng.Mode(c.Mode)}, c.inputs(), fn)
	info := map[string]any{"what": c.What, "challenge_rounds": nch, "routed": len(c.Sigmas), "qdf": len(c.Quot) / maxInt(nch, 1), "outcome": res.Outcome.String(), "reference": fmt.Sprint(refErr)}
	shapeOK := c.Shape.Real != "" || c.Shape.NumRouted == (c.Shape.NumPP+1)*c.Shape.QDF
	if res.Outcome == eng.Refused {
		if !shapeOK {
			return caseResult{Info: info} // documented: routed wires must be a multiple of the chunk size
		}
		return caseResult{Viol: "verify/refused", Desc: fmt.Sprintf("PlonkChip.Verify refused a well-shaped instance (%s): %s", c.What, fmtRes(res)), Info: info}
	}
	if (res.Outcome == eng.Accept) != (refErr == nil) {
		return caseResult{Viol: "verify/" + c.What, Desc: fmt.Sprintf("PlonkChip.Verify (%s; %d challenge rounds, %d routed wires): circuit %v, reference: %v", c.What, nch, len(c.Sigmas), res.Outcome, refErr), Info: info}
	}
	return caseResult{Info: info}
}

func maxInt(a, b int) int {
	if a > b {
		return a
	}
	return b
}

func genSynthShape() *rapid.Generator[plonkShape] {
	return rapid.Custom(func(t *rapid.T) plonkShape {
		s := plonkShape{}
		s.NumChallenges = uint64(rapid.IntRange(1, 3).Draw(t, "challenges"))
		s.QDF = uint64(rapid.IntRange(1, 8).Draw(t, "qdf"))
		m := uint64(rapid.IntRange(1, int(80/s.QDF)).Draw(t, "chunks"))
		if m > 6 && rapid.Bool().Draw(t, "small") {
			m = uint64(rapid.IntRange(1, 6).Draw(t, "fewchunks"))
		}
		s.NumRouted = m * s.QDF
		if s.NumRouted < 2 {
			s.NumRouted, s.QDF = 2, 2
		}
		s.NumPP = s.NumRouted/s.QDF - 1
		s.DegreeBits = uint64(rapid.IntRange(2, 14).Draw(t, "degree_bits"))
		// simple gate set: always noop + public input, plus a few parameterised gates that fit the wires
		n := rapid.IntRange(0, 4).Draw(t, "extra_gates")
		s.Gates = []gateSpec{{Type: "Noop"}, {Type: "PublicInput"}}
		for i := 0; i < n; i++ {
			typ := rapid.SampledFrom([]string{"Constant", "Arithmetic", "BaseSum", "MulExtension", "Reducing", "ArithmeticExtension", "RandomAccess", "Exponentiation"}).Draw(t, "type")
			s.Gates = append(s.Gates, genGateSpec(typ).Draw(t, "gate"))
		}
		ng := rapid.IntRange(1, minInt(3, len(s.Gates))).Draw(t, "groups")
		per := (len(s.Gates) + ng - 1) / ng
		for st := 0; st < len(s.Gates); st += per {
			s.GroupStarts = append(s.GroupStarts, uint64(st))
			s.GroupEnds = append(s.GroupEnds, uint64(minInt(st+per, len(s.Gates))))
		}
		need := 4
		for _, g := range s.Gates {
			if w := wiresNeeded(g); w > need {
				need = w
			}
		}
		s.NumWires = uint64(maxInt(need, int(s.NumRouted)))
		s.NumConstants = uint64(len(s.GroupStarts)) + 4
		// num_gate_constraints = the largest constraint count among the gates (as plonky2 sets it)
		zeroW, zeroC := make([]ref.E, gateRowWires), make([]ref.E, gateRowConsts)
		for _, g := range s.Gates {
			rg, err := ref.ParseGate(g.id())
			if err != nil {
				panic(err)
			}
			if k := uint64(len(rg.Eval(&ref.Vars{Consts: zeroC, Wires: zeroW}))); k > s.NumGateCons {
				s.NumGateCons = k
			}
		}
		for i := uint64(0); i < s.NumRouted; i++ {
			s.KIs = append(s.KIs, genGL().Draw(t, "k_i"))
		}
		return s
	})
}

// genC16 draws openings/challenges for a shape and solves quotient chunk 0 of every round.
func genC16(t *rapid.T, shape plonkShape, realOpenings bool) c16Case {
	cd, rc, rgs, err := shape.build()
	if err != nil {
		panic(err)
	}
	_ = cd
	c := c16Case{Shape: shape, What: "solved"}
	nc := int(rc.Config.NumChallenges)
	es := func(n int) [][2]uint64 {
		o := make([][2]uint64, n)
		for i := range o {
			o[i] = e2(genE().Draw(t, "opening"))
		}
		return o
	}
	if realOpenings {
		var p ref.ProofWithPIs
		ref.LoadJSON(corp.Path(shape.Real, "proof.json"), &p)
		o := p.Proof.Openings
		c.Consts, c.Sigmas, c.Wires, c.Zs, c.ZsNext, c.PPs, c.Quot = o.Constants, o.PlonkSigmas, o.Wires, o.PlonkZs, o.PlonkZsNext, o.PartialProducts, o.QuotientPolys
		// re-randomise a few openings so that cases differ
		for k := 0; k < 6; k++ {
			c.Wires[rapid.IntRange(0, len(c.Wires)-1).Draw(t, "wi")] = e2(genE().Draw(t, "w"))
		}
	} else {
		c.Consts, c.Sigmas, c.Wires = es(int(rc.NumConstants)), es(int(rc.Config.NumRoutedWires)), es(int(rc.Config.NumWires))
		c.Zs, c.ZsNext, c.PPs = es(nc), es(nc), es(nc*int(rc.NumPartialProducts))
		c.Quot = es(nc * int(rc.QuotientDegreeFactor))
		// make selector openings select gates / the unused marker now and then
		for gi := range rc.SelectorsInfo.Groups {
			switch rapid.IntRange(0, 2).Draw(t, "sel") {
			case 0:
				g := rc.SelectorsInfo.Groups[gi]
				c.Consts[gi] = [2]uint64{uint64(rapid.IntRange(int(g.Start), int(g.End)-1).Draw(t, "gate")), 0}
			case 1:
				c.Consts[gi] = [2]uint64{ref.UnusedSelector, 0}
			}
		}
	}
	for i := 0; i < nc; i++ {
		c.Betas = append(c.Betas, genGL().Draw(t, "beta"))
		c.Gammas = append(c.Gammas, genGL().Draw(t, "gamma"))
		c.Alphas = append(c.Alphas, genGL().Draw(t, "alpha"))
	}
	c.Zeta = e2(genE().Draw(t, "zeta"))
	for i := range c.PI {
		c.PI[i] = genGL().Draw(t, "pi")
	}
	// solve: van[i] = Z_H(zeta) * sum_j q[i][j] zeta^(n j)
	func() {
		defer func() { recover() }()
		van := ref.EvalVanishing(rc, rgs, c.refOpenings(), c.refChallenges(), c.PI)
		zn := ref.EExpPow2(toE(c.Zeta), rc.FriParams.DegreeBits)
		zh := ref.ESub(zn, ref.EOne)
		q := int(rc.QuotientDegreeFactor)
		for i := 0; i < nc; i++ {
			rest := ref.EZero
			pw := zn
			for j := 1; j < q; j++ {
				rest = ref.EAdd(rest, ref.EMul(toE(c.Quot[i*q+j]), pw))
				pw = ref.EMul(pw, zn)
			}
			c.Quot[i*q] = e2(ref.ESub(ref.EDiv(van[i], zh), rest))
		}
	}()
	return c
}

func TestC16(t *testing.T) {
	s := newSuite("C16")
	compiledEvery = 0 // the PLONK check is exercised on compiled systems through the whole verifier (C02, C01)
	r := s.r
	defer r.Flush()
	r.Rule("opening sets and challenges over GF(p^2) shaped by (a) the two real circuit descriptions (real openings with some wires re-drawn, or fully random openings) and (b) synthetic descriptions (1..3 challenge rounds, routed wires = chunks x quotient degree factor with factor 1..8 up to 80 wires, 2..6 gates from the parameterised gate grammar in 1..3 selector groups, degree bits 2..14, random coset shifts); quotient chunk 0 of every round is solved with the reference so that the identity holds (must ACCEPT); then one opening coordinate (constants, sigmas, wires, Zs, next Zs, partial products, quotient chunks), one challenge (beta, gamma, alpha, zeta) or the public-input hash is changed (must agree with the reference, which rejects).  The export hook evalVanishingPoly is compared value-by-value on random inputs.  Non-trivial = every case; distinct = full case.  Synthetic descriptions reach the circuit as plonky2-style common_circuit_data.json read by the repository's reader (decoy values in unrelated / duplicated fields); a fifth of the synthetic cases evaluates the statement 2-3 times through one PlonkChip in one circuit (same verdict / values expected).")
	r.Assume("reference vanishing polynomial and gates (C15)", "descriptions whose routed-wire count is not a multiple of the chunk size are outside what the code indexes and may be refused")
	s.on("plonk", func(b json.RawMessage) caseResult { return c16Run(unmarshal[c16Case](b)) })
	if s.replay(t) {
		return
	}
	mutate := func(rt *rapid.T, c *c16Case) {
		lists := map[string]*[][2]uint64{"constants": &c.Consts, "sigmas": &c.Sigmas, "wires": &c.Wires, "zs": &c.Zs, "zs_next": &c.ZsNext, "partial_products": &c.PPs, "quotient": &c.Quot}
		names := []string{"constants", "sigmas", "wires", "zs", "zs_next", "partial_products", "quotient", "beta", "gamma", "alpha", "zeta", "pi_hash"}
		w := rapid.SampledFrom(names).Draw(rt, "mutate")
		delta := rapid.SampledFrom([]uint64{1, ref.P - 1, 1 << 32}).Draw(rt, "delta")
		if l, ok := lists[w]; ok {
			if len(*l) == 0 {
				return
			}
			cp := append([][2]uint64{}, (*l)...)
			i := rapid.IntRange(0, len(cp)-1).Draw(rt, "i")
			k := rapid.IntRange(0, 1).Draw(rt, "coord")
			cp[i][k] = ref.Add(cp[i][k], delta)
			*l = cp
			c.What = "perturbed-" + w
			return
		}
		i := rapid.IntRange(0, len(c.Betas)-1).Draw(rt, "round")
		switch w {
		case "beta":
			c.Betas = append([]uint64{}, c.Betas...)
			c.Betas[i] = ref.Add(c.Betas[i], delta)
		case "gamma":
			c.Gammas = append([]uint64{}, c.Gammas...)
			c.Gammas[i] = ref.Add(c.Gammas[i], delta)
		case "alpha":
			c.Alphas = append([]uint64{}, c.Alphas...)
			c.Alphas[i] = ref.Add(c.Alphas[i], delta)
		case "zeta":
			c.Zeta[i%2] = ref.Add(c.Zeta[i%2], delta)
		case "pi_hash":
			c.PI[i%4] = ref.Add(c.PI[i%4], delta)
		}
		c.What = "perturbed-" + w
	}
	rapidCheck(t, "real", tierN(250, 5000), func(rt *rapid.T) {
		base := rapid.SampledFrom([]string{"A1", "B1"}).Draw(rt, "base")
		c := genC16(rt, plonkShape{Real: base}, rapid.Bool().Draw(rt, "real_openings"))
		c.Mode = int(eng.ModeNative)
		switch rapid.IntRange(0, 3).Draw(rt, "kind") {
		case 0:
			c.OnlyVan, c.What = true, "vanishing-values"
		case 1:
		default:
			mutate(rt, &c)
		}
		s.exec(rt, "plonk", c, "real-description/"+c.What)
	})
	rapidCheck(t, "synthetic", tierN(1000, 20000), func(rt *rapid.T) {
		c := genC16(rt, genSynthShape().Draw(rt, "shape"), false)
		c.Mode = int(genMode().Draw(rt, "mode"))
		switch rapid.IntRange(0, 4).Draw(rt, "kind") {
		case 0:
			c.OnlyVan, c.What = true, "vanishing-values"
		case 1:
		default:
			mutate(rt, &c)
		}
		class := "synthetic/" + c.What
		if rapid.IntRange(0, 4).Draw(rt, "repeat") == 0 {
			// one PlonkChip checking the same statement several times in one circuit
			c.Repeat = rapid.IntRange(1, 2).Draw(rt, "times")
			class += "/repeated-on-one-chip"
		}
		s.exec(rt, "plonk", c, class)
	})
	// shapes the code cannot index: routed wires not a multiple of the chunk size
	rapidCheck(t, "unindexable", tierN(28, 600), func(rt *rapid.T) {
		sh := genSynthShape().Draw(rt, "shape")
		if sh.QDF < 2 {
			sh.QDF = 2
		}
		sh.NumRouted = sh.QDF*uint64(rapid.IntRange(1, 5).Draw(rt, "m")) + uint64(rapid.IntRange(1, int(sh.QDF)-1).Draw(rt, "rem"))
		sh.NumPP = (sh.NumRouted+sh.QDF-1)/sh.QDF - 1
		if sh.NumWires < sh.NumRouted {
			sh.NumWires = sh.NumRouted
		}
		sh.KIs = nil
		for i := uint64(0); i < sh.NumRouted; i++ {
			sh.KIs = append(sh.KIs, genGL().Draw(rt, "k_i"))
		}
		c := genC16(rt, sh, false)
		c.Mode, c.What = int(eng.ModeNative), "routed-not-multiple-of-chunk"
		s.exec(rt, "plonk", c, "synthetic/"+c.What)
	})
	r.Done()
}

package props

import (
	"math/big"
	"reflect"
	"sync"

	"verif/eng"
	"verif/wv"

	"github.com/wormhole-foundation/example-near-light-client/verifier"
)

// runner evaluates the whole verifier circuit of one instance with some leaves replaced.
type runner struct {
	in     *wv.Inst
	tmpl   *verifier.VerifierCircuit
	asg    *verifier.VerifierCircuit
	leaves []wv.Leaf
	vals   []reflect.Value
	orig   []*big.Int
	byName map[string]int
}

var (
	runnersMu sync.Mutex
	runners   = map[string]*runner{}
)

func getRunner(base string, k int) *runner {
	runnersMu.Lock()
	defer runnersMu.Unlock()
	in := wv.Load(base, k)
	if r, ok := runners[in.Name()]; ok {
		return r
	}
	r := &runner{in: in, tmpl: in.Circuit(), asg: in.Circuit(), byName: map[string]int{}}
	r.leaves, r.vals = wv.Leaves(r.asg)
	r.orig = make([]*big.Int, len(r.vals))
	for i, v := range r.vals {
		r.orig[i] = wv.Value(v)
		r.byName[r.leaves[i].Name] = i
	}
	runners[in.Name()] = r
	return r
}

// run evaluates with leaves replaced (index -> value); the assignment is restored afterwards.
func (r *runner) run(muts map[int]*big.Int, opt eng.Options) eng.Result {
	for i, x := range muts {
		wv.Set(r.vals[i], x)
	}
	defer func() {
		for i := range muts {
			wv.Set(r.vals[i], r.orig[i])
		}
	}()
	return eng.Run(r.tmpl, r.asg, opt)
}

// confirmAccept implements the two-stage confirmation of DESIGN 3.8: a wrong ACCEPT seen under
// the fast native flavour is re-evaluated under bit decomposition (the deployed configuration).
func (r *runner) confirmAccept(muts map[int]*big.Int) eng.Result {
	return r.run(muts, eng.Options{Mode: eng.ModePlain})
}

// modulusFor returns the modulus in which a leaf is perturbed (canonical values only).
func modulusFor(l wv.Leaf) *big.Int {
	if l.Hash {
		return bigR
	}
	return bigP
}

// neighbour returns the index of the adjacent leaf of the same kind and round (for "swap").
func (r *runner) neighbour(i int) int {
	same := func(j int) bool {
		return j >= 0 && j < len(r.leaves) && r.leaves[j].Kind == r.leaves[i].Kind && r.leaves[j].Round == r.leaves[i].Round
	}
	if same(i + 1) {
		return i + 1
	}
	if same(i - 1) {
		return i - 1
	}
	return -1
}

var perturbations = []string{"+1", "-1", "random", "zero", "swap"}

// perturb returns the replacement map for leaf i, or nil when the perturbation is trivial
// (leaves the values unchanged).
func (r *runner) perturb(i int, kind string, rnd *big.Int) map[int]*big.Int {
	m := modulusFor(r.leaves[i])
	o := r.orig[i]
	var x *big.Int
	switch kind {
	case "+1":
		x = new(big.Int).Add(o, big.NewInt(1))
	case "-1":
		x = new(big.Int).Sub(o, big.NewInt(1))
	case "random":
		x = new(big.Int).Set(rnd)
	case "zero":
		x = new(big.Int)
	case "swap":
		j := r.neighbour(i)
		if j < 0 || r.orig[j].Cmp(o) == 0 {
			return nil
		}
		return map[int]*big.Int{i: r.orig[j], j: o}
	}
	x.Mod(x, m)
	if x.Cmp(o) == 0 {
		return nil
	}
	return map[int]*big.Int{i: x}
}

package props

import (
	"bytes"
	"encoding/json"
	"fmt"
	"math/big"
	"os"
	"regexp"
	"strconv"
	"strings"

	"verif/corp"
	"verif/ref"

	"github.com/wormhole-foundation/example-near-light-client/types"
)

// cdEdit is a single-constant change of a common-circuit-data JSON document.
type cdEdit struct {
	Path  []string `json:"path"`            // object keys / decimal list indices
	Op    string   `json:"op"`              // "+1" | "-1" | "set" | "swapnext" | "param+1" | "param-1" | "copyfrom"
	Arg   string   `json:"arg,omitempty"`   // value for set / source index for copyfrom
	Param int      `json:"param,omitempty"` // which numeric token of a gate identifier
}

func (e cdEdit) String() string { return fmt.Sprintf("%v %s %s #%d", e.Path, e.Op, e.Arg, e.Param) }

func loadGeneric(path string) map[string]any {
	b, err := os.ReadFile(path)
	if err != nil {
		panic(err)
	}
	d := json.NewDecoder(bytes.NewReader(b))
	d.UseNumber()
	var m map[string]any
	if err := d.Decode(&m); err != nil {
		panic(err)
	}
	return m
}

func navigate(root any, path []string) (parent any, last string) {
	cur := root
	for _, p := range path[:len(path)-1] {
		switch c := cur.(type) {
		case map[string]any:
			cur = c[p]
		case []any:
			i, _ := strconv.Atoi(p)
			cur = c[i]
		default:
			panic("bad path")
		}
	}
	return cur, path[len(path)-1]
}

func getAt(parent any, last string) any {
	switch c := parent.(type) {
	case map[string]any:
		return c[last]
	case []any:
		i, _ := strconv.Atoi(last)
		return c[i]
	}
	panic("bad parent")
}
func setAt(parent any, last string, v any) {
	switch c := parent.(type) {
	case map[string]any:
		c[last] = v
	case []any:
		i, _ := strconv.Atoi(last)
		c[i] = v
	default:
		panic("bad parent")
	}
}

// numeric tokens of a gate identifier that are parameters (not the digit in "plonky2_field")
var reGateNum = regexp.MustCompile(`(: |\[|, |=)(\d+)`)

// apply performs the edit in place; ok=false if it does not change the document or is not
// applicable (e.g. -1 on zero).
func (e cdEdit) apply(doc map[string]any) (ok bool) {
	if strings.HasPrefix(e.Op, "both") {
		// Path = ["fri_config", key]: the same edit on both copies plonky2 keeps of the FRI configuration
		o1 := cdEdit{Path: []string{"config", "fri_config", e.Path[1]}, Op: e.Op[4:], Arg: e.Arg}.apply(doc)
		o2 := cdEdit{Path: []string{"fri_params", "config", e.Path[1]}, Op: e.Op[4:], Arg: e.Arg}.apply(doc)
		return o1 || o2
	}
	parent, last := navigate(doc, e.Path)
	cur := getAt(parent, last)
	num := func(v any) *big.Int {
		n, isn := v.(json.Number)
		if !isn {
			return nil
		}
		b, good := new(big.Int).SetString(n.String(), 10)
		if !good {
			return nil
		}
		return b
	}
	switch e.Op {
	case "+1", "-1", "set":
		b := num(cur)
		if b == nil {
			return false
		}
		var x *big.Int
		switch e.Op {
		case "+1":
			x = new(big.Int).Add(b, big.NewInt(1))
		case "-1":
			x = new(big.Int).Sub(b, big.NewInt(1))
		default:
			x = bs(e.Arg)
		}
		if x.Sign() < 0 || x.BitLen() > 64 || x.Cmp(b) == 0 {
			return false
		}
		setAt(parent, last, json.Number(x.String()))
		return true
	case "swapnext":
		lst, isl := parent.([]any)
		i, _ := strconv.Atoi(last)
		if !isl || i+1 >= len(lst) {
			return false
		}
		a, b := num(lst[i]), num(lst[i+1])
		if a == nil || b == nil || a.Cmp(b) == 0 {
			return false
		}
		lst[i], lst[i+1] = lst[i+1], lst[i]
		return true
	case "param+1", "param-1":
		s, iss := cur.(string)
		if !iss {
			return false
		}
		locs := reGateNum.FindAllStringSubmatchIndex(s, -1)
		if e.Param >= len(locs) {
			return false
		}
		st, en := locs[e.Param][4], locs[e.Param][5]
		b, _ := new(big.Int).SetString(s[st:en], 10)
		if e.Op == "param+1" {
			b.Add(b, big.NewInt(1))
		} else {
			b.Sub(b, big.NewInt(1))
		}
		if b.Sign() < 0 {
			return false
		}
		setAt(parent, last, s[:st]+b.String()+s[en:])
		return true
	case "copyfrom":
		lst, isl := parent.([]any)
		j, _ := strconv.Atoi(e.Arg)
		if !isl || j >= len(lst) || fmt.Sprint(lst[j]) == fmt.Sprint(cur) {
			return false
		}
		setAt(parent, last, lst[j])
		return true
	}
	panic("unknown edit op " + e.Op)
}

// enumerateEdits lists the single-constant PLONK-description edits of a common-data document.
func enumerateEdits(doc map[string]any, rndKI func(i int) string) []cdEdit {
	var es []cdEdit
	kis := doc["k_is"].([]any)
	for i := range kis {
		p := []string{"k_is", strconv.Itoa(i)}
		es = append(es, cdEdit{Path: p, Op: "+1"}, cdEdit{Path: p, Op: "-1"}, cdEdit{Path: p, Op: "swapnext"})
		if rndKI != nil {
			es = append(es, cdEdit{Path: p, Op: "set", Arg: rndKI(i)})
		}
	}
	gs := doc["gates"].([]any)
	for g := range gs {
		p := []string{"gates", strconv.Itoa(g)}
		n := len(reGateNum.FindAllStringIndex(gs[g].(string), -1))
		for k := 0; k < n; k++ {
			es = append(es, cdEdit{Path: p, Op: "param+1", Param: k}, cdEdit{Path: p, Op: "param-1", Param: k})
		}
		es = append(es, cdEdit{Path: p, Op: "copyfrom", Arg: strconv.Itoa((g + 1) % len(gs))}, cdEdit{Path: p, Op: "copyfrom", Arg: strconv.Itoa((g + 5) % len(gs))})
	}
	si := doc["selectors_info"].(map[string]any)
	for i := range si["selector_indices"].([]any) {
		p := []string{"selectors_info", "selector_indices", strconv.Itoa(i)}
		es = append(es, cdEdit{Path: p, Op: "+1"}, cdEdit{Path: p, Op: "-1"})
	}
	for j := range si["groups"].([]any) {
		for _, f := range []string{"start", "end"} {
			p := []string{"selectors_info", "groups", strconv.Itoa(j), f}
			es = append(es, cdEdit{Path: p, Op: "+1"}, cdEdit{Path: p, Op: "-1"})
		}
	}
	for _, p := range [][]string{{"quotient_degree_factor"}, {"num_partial_products"}, {"num_constants"}, {"num_gate_constraints"},
		{"config", "num_challenges"}, {"config", "num_routed_wires"}, {"config", "num_wires"}, {"fri_params", "degree_bits"}} {
		es = append(es, cdEdit{Path: p, Op: "+1"}, cdEdit{Path: p, Op: "-1"})
	}
	return es
}

// friEdits lists single-constant edits of the FRI part of the description.  plonky2 stores the FRI
// configuration twice (config.fri_config and fri_params.config, always equal); a constant is edited in
// both copies, so that the description stays one plonky2 could have emitted.  (A description whose copies
// disagree is not a circuit description; which copy a verifier reads is its own business, and plonky2 and
// this repository differ there.  C20 covers the one security-relevant case, the number of query rounds.)
func friEdits(doc map[string]any) []cdEdit {
	var es []cdEdit
	for _, key := range []string{"num_query_rounds", "rate_bits", "cap_height"} {
		for _, op := range []string{"+1", "-1"} {
			es = append(es, cdEdit{Path: []string{"fri_config", key}, Op: "both" + op})
		}
	}
	ar := doc["fri_params"].(map[string]any)["reduction_arity_bits"].([]any)
	for i := range ar {
		p := []string{"fri_params", "reduction_arity_bits", strconv.Itoa(i)}
		es = append(es, cdEdit{Path: p, Op: "+1"}, cdEdit{Path: p, Op: "-1"})
	}
	return es
}

// editedCommon applies e to the common data of a corpus instance and returns it in both the
// repository's and the reference's representation.  err != nil: the repository's reader
// refused the document.
func editedCommon(base string, e cdEdit, k int) (cd types.CommonCircuitData, rc ref.Common, changed bool, err error) {
	doc := loadGeneric(corp.Path(base, "common_data.json"))
	if !e.apply(doc) {
		return cd, rc, false, nil
	}
	cd, rc, err = commonFromDoc(doc, k)
	return cd, rc, true, err
}

// commonFromDoc parses an (edited) common-data document with both readers; k>0 first restricts
// the number of query rounds (both copies) to k unless the edit changed them.
func commonFromDoc(doc map[string]any, k int) (cd types.CommonCircuitData, rc ref.Common, err error) {
	if k > 0 && k < 28 {
		for _, m := range []map[string]any{doc["config"].(map[string]any)["fri_config"].(map[string]any), doc["fri_params"].(map[string]any)["config"].(map[string]any)} {
			if n, _ := m["num_query_rounds"].(json.Number); n.String() == "28" {
				m["num_query_rounds"] = json.Number(strconv.Itoa(k))
			} else {
				// an edit moved it away from 28: keep the same offset relative to k
				v, _ := strconv.Atoi(n.String())
				m["num_query_rounds"] = json.Number(strconv.Itoa(k + v - 28))
			}
		}
	}
	b, _ := json.Marshal(doc)
	if uerr := json.Unmarshal(b, &rc); uerr != nil {
		return cd, rc, uerr
	}
	f, ferr := os.CreateTemp(os.Getenv("VERIF_OUT"), "cd-*.json")
	if ferr != nil {
		panic(ferr)
	}
	f.Write(b)
	f.Close()
	defer os.Remove(f.Name())
	func() {
		defer func() {
			if r := recover(); r != nil {
				err = fmt.Errorf("reader refused: %v", r)
			}
		}()
		cd = types.ReadCommonCircuitData(f.Name())
	}()
	return cd, rc, err
}

// refVerdict runs the reference verifier, turning panics (shape mismatches) into rejections.
func refVerdict(c *ref.Common, p *ref.ProofWithPIs, v *ref.VerifierOnly) (err error) {
	defer func() {
		if r := recover(); r != nil {
			err = fmt.Errorf("reference cannot interpret the proof under this description: %v", r)
		}
	}()
	return ref.Verify(c, p, v)
}

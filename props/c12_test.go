package props

import (
	"encoding/json"
	"fmt"
	"math/big"
	"testing"
	"verif/cs"

	"verif/corp"
	"verif/eng"
	"verif/gad"
	"verif/ref"
	"verif/wv"

	"github.com/consensys/gnark-crypto/ecc/bn254/fr"
	"github.com/consensys/gnark/frontend"
	"github.com/wormhole-foundation/example-near-light-client/fri"
	"github.com/wormhole-foundation/example-near-light-client/types"
	"github.com/wormhole-foundation/example-near-light-client/variables"
	"pgregory.net/rapid"
)

// C12 Merkle openings verify only the committed leaf at the queried index.
//
// Oracle: ACCEPT <=> reference recomputation (hash_or_noop of the leaf, folded with the siblings
// ordered by the index bits) equals the cap entry selected by the four cap-index bits.

type c12Case struct {
	Mode     int      `json:"mode"`
	Leaf     []uint64 `json:"leaf"`
	Bits     []int    `json:"index_bits"` // little endian; len = height
	CapBits  []int    `json:"cap_bits"`   // 4 bits selecting the cap entry
	Cap      []string `json:"cap"`
	Siblings []string `json:"siblings"`
	What     string   `json:"what"`
	// LeafOffsets: leaf position -> k; the element is supplied as value + k*p (non-canonical encoding)
	LeafOffsets map[int]string `json:"leaf_offsets_multiple_of_p,omitempty"`
	// BitValues overrides index bits by arbitrary field elements (decimal), position -> value
	BitValues map[int]string `json:"index_bit_values,omitempty"`
	// Backend "" = evaluation engine; "r1cs" / "scs" = the gadget compiled with gnark's builder and solved
	Backend string `json:"backend,omitempty"`
}

func c12Fn(c c12Case) gad.Fn {
	nl, nb := len(c.Leaf), len(c.Bits)
	return func(api frontend.API, in []frontend.Variable) []frontend.Variable {
		cd := types.CommonCircuitData{}
		chip := fri.NewChip(api, &cd, &cd.FriParams)
		p := 0
		take := func(n int) []frontend.Variable { s := in[p : p+n]; p += n; return s }
		leaf := glvs(take(nl))
		bits := take(nb)
		capBits := take(4)
		cap := take(16)
		sib := take(len(c.Siblings))
		chip.VerifMerkle(leaf, bits, capBits, variables.FriMerkleCap(cap), &variables.FriMerkleProof{Siblings: sib})
		return nil
	}
}

func c12Expected(c c12Case) bool {
	d := ref.HashOrNoopBN(c.Leaf)
	for i, s := range c.Siblings {
		sv := ref.HFromString(s)
		bit := c.Bits[i]
		if v, ok := c.BitValues[i]; ok {
			bit = int(bs(v).Int64()) // only reached for boolean overrides (see c12NonBoolean)
		}
		if bit == 1 {
			d = ref.TwoToOneBN(sv, d)
		} else {
			d = ref.TwoToOneBN(d, sv)
		}
	}
	slot := c.CapBits[0] | c.CapBits[1]<<1 | c.CapBits[2]<<2 | c.CapBits[3]<<3
	want := ref.HFromString(c.Cap[slot])
	return d.Equal(&want)
}

var c12Systems = map[string]*cs.System{}

func c12NonBoolean(c c12Case) bool {
	for _, v := range c.BitValues {
		if x := bs(v); x.Cmp(big.NewInt(1)) > 0 {
			return true
		}
	}
	for _, b := range append(append([]int{}, c.Bits...), c.CapBits...) {
		if b != 0 && b != 1 {
			return true
		}
	}
	return false
}

func c12Run(c c12Case) caseResult {
	var in []*big.Int
	in = append(in, u64s(c.Leaf)...)
	for i, k := range c.LeafOffsets {
		in[i] = new(big.Int).Add(in[i], new(big.Int).Mul(bs(k), bigP))
	}
	for i, b := range c.Bits {
		if v, ok := c.BitValues[i]; ok {
			in = append(in, bs(v))
		} else {
			in = append(in, big.NewInt(int64(b)))
		}
	}
	for _, b := range c.CapBits {
		in = append(in, big.NewInt(int64(b)))
	}
	in = append(in, unstrs(c.Cap)...)
	in = append(in, unstrs(c.Siblings)...)
	exp := !c12NonBoolean(c) && len(c.LeafOffsets) == 0 && c12Expected(c)
	if c.Backend != "" {
		kind := cs.R1CS
		if c.Backend == "scs" {
			kind = cs.SCS
		}
		key := fmt.Sprintf("%s/%d/%d/%d", c.Backend, len(c.Leaf), len(c.Bits), len(c.Siblings))
		sys := c12Systems[key]
		if sys == nil {
			var err error
			sys, err = cs.Compile(kind, cs.MechForcedBits, len(in), 0, c12Fn(c))
			if err != nil {
				return caseResult{Viol: "compile-" + c.Backend, Desc: fmt.Sprintf("merkle gadget (height %d, leaf width %d) does not compile for %s: %v", len(c.Bits), len(c.Leaf), c.Backend, err)}
			}
			if len(c12Systems) > 8 {
				c12Systems = map[string]*cs.System{}
			}
			c12Systems[key] = sys
		}
		serr := sys.Solve(in, nil)
		if (serr == nil) != exp {
			return caseResult{Viol: fmt.Sprintf("verdict-compiled-%s/%s", c.Backend, c.What), Desc: fmt.Sprintf("opening (height %d, leaf width %d, %s) on the gadget compiled to %s: solved=%v, reference says valid=%v", len(c.Bits), len(c.Leaf), c.What, c.Backend, serr == nil, exp)}
		}
		return caseResult{Info: map[string]any{"height": len(c.Bits), "leaf_width": len(c.Leaf), "what": c.What, "valid": exp, "backend": c.Backend}}
	}
	res, _ := gad.Run(eng.Options{Mode: eng.Mode(c.Mode)}, in, c12Fn(c))
	if res.Outcome == eng.Refused && c12NonBoolean(c) {
		return caseResult{Info: map[string]any{"what": c.What, "outcome": "REFUSED"}} // not accepted: fine
	}
	if res.Outcome == eng.Refused {
		return caseResult{Viol: "refused", Desc: fmt.Sprintf("merkle gadget refused a well-shaped opening (%s): %s", c.What, fmtRes(res))}
	}
	got := res.Outcome == eng.Accept
	if got != exp {
		return caseResult{Viol: fmt.Sprintf("verdict/%s", c.What), Desc: fmt.Sprintf("opening (height %d, leaf width %d, %s): circuit %v, reference says valid=%v", len(c.Bits), len(c.Leaf), c.What, res.Outcome, exp)}
	}
	return caseResult{Info: map[string]any{"height": len(c.Bits), "leaf_width": len(c.Leaf), "what": c.What, "valid": exp, "outcome": res.Outcome.String()}}
}

func hstr(e fr.Element) string { return e.String() }

func genMerkleCase() *rapid.Generator[c12Case] {
	return rapid.Custom(func(t *rapid.T) c12Case {
		h := rapid.IntRange(4, 12).Draw(t, "height")
		w := rapid.IntRange(1, 140).Draw(t, "width")
		if rapid.IntRange(0, 3).Draw(t, "short") == 0 {
			w = rapid.IntRange(1, 4).Draw(t, "shortwidth")
		}
		leaf := make([]uint64, w)
		for i := range leaf {
			leaf[i] = genGL().Draw(t, "leaf")
		}
		idx := rapid.Uint64Range(0, (1<<uint(h))-1).Draw(t, "index")
		if rapid.IntRange(0, 4).Draw(t, "edgeidx") == 0 {
			idx = rapid.SampledFrom([]uint64{0, (1 << uint(h)) - 1, 1 << uint(h-1), (1 << uint(h-4)) - 1}).Draw(t, "idx")
		}
		bits := make([]int, h)
		for i := range bits {
			bits[i] = int(idx>>uint(i)) & 1
		}
		sib := make([]fr.Element, h-4)
		for i := range sib {
			sib[i] = frOf(genHashVal().Draw(t, "sibling"))
		}
		d := ref.HashOrNoopBN(leaf)
		for i, s := range sib {
			if bits[i] == 1 {
				d = ref.TwoToOneBN(s, d)
			} else {
				d = ref.TwoToOneBN(d, s)
			}
		}
		slot := int(idx >> uint(h-4))
		cap := make([]string, 16)
		for i := range cap {
			cap[i] = genHashVal().Draw(t, "cap").String()
		}
		cap[slot] = hstr(d)
		c := c12Case{Leaf: leaf, Bits: bits, CapBits: append([]int{}, bits[h-4:]...), Cap: cap}
		for _, s := range sib {
			c.Siblings = append(c.Siblings, hstr(s))
		}
		kinds := []string{"honest", "leaf-element", "leaf-element", "sibling", "index-bit", "cap-index-bit", "selected-cap-entry", "unselected-cap-entry", "wrong-cap-slot", "leaf-length", "index-bit-not-boolean", "cap-index-bit-not-boolean", "forged-bit-and-sibling", "forged-bit-and-sibling", "leaf-element-plus-kp"}
		c.What = rapid.SampledFrom(kinds).Draw(t, "corruption")
		switch c.What {
		case "leaf-element":
			i := rapid.IntRange(0, w-1).Draw(t, "i")
			c.Leaf = append([]uint64{}, leaf...)
			c.Leaf[i] = ref.Add(leaf[i], rapid.SampledFrom([]uint64{1, ref.P - 1, 1 << 32}).Draw(t, "delta"))
		case "leaf-element-plus-kp":
			// the same field element in another integer encoding: the gadget binds the values it is given
			// (canonical form is enforced elsewhere, C17), so a different integer is a different leaf
			c.LeafOffsets = map[int]string{rapid.IntRange(0, w-1).Draw(t, "i"): rapid.SampledFrom([]string{"1", "1", "2", "4294967296"}).Draw(t, "k")}
		case "leaf-length":
			if rapid.Bool().Draw(t, "grow") || w == 1 {
				c.Leaf = append(append([]uint64{}, leaf...), 0)
			} else {
				c.Leaf = append([]uint64{}, leaf[:w-1]...)
			}
		case "sibling":
			if len(sib) == 0 {
				c.What = "honest"
				break
			}
			i := rapid.IntRange(0, len(sib)-1).Draw(t, "i")
			c.Siblings = append([]string{}, c.Siblings...)
			c.Siblings[i] = genHashVal().Draw(t, "newsibling").String()
		case "index-bit": // equivalently: left/right order swapped at that level
			if h == 4 {
				c.What = "honest"
				break
			}
			i := rapid.IntRange(0, h-5).Draw(t, "bit")
			c.Bits = append([]int{}, bits...)
			c.Bits[i] ^= 1
		case "cap-index-bit":
			i := rapid.IntRange(0, 3).Draw(t, "bit")
			c.CapBits = append([]int{}, c.CapBits...)
			c.CapBits[i] ^= 1
		case "index-bit-not-boolean": // a single index "bit" replaced by a value outside {0,1}
			if h == 4 {
				c.What = "honest"
				break
			}
			i := rapid.IntRange(0, h-5).Draw(t, "bit")
			c.Bits = append([]int{}, bits...)
			c.Bits[i] = rapid.SampledFrom([]int{2, 3, 7, 1 << 32, 1<<62 + 1}).Draw(t, "value")
		case "forged-bit-and-sibling":
			// a leaf that is NOT in the tree, opened with one sibling and one index "bit" (a field element
			// outside {0,1}) chosen so that a linear left/right selection reproduces the honest pair of that level
			if h == 4 {
				c.What = "honest"
				break
			}
			c.Leaf = append([]uint64{}, leaf...)
			c.Leaf[rapid.IntRange(0, w-1).Draw(t, "i")] = ref.Add(c.Leaf[0], 1+rapid.Uint64Range(0, 1000).Draw(t, "delta"))
			dFake, dHonest := ref.HashOrNoopBN(c.Leaf), ref.HashOrNoopBN(leaf)
			if dFake.Equal(&dHonest) {
				c.Leaf, c.What = leaf, "honest"
				break
			}
			s0 := ref.HFromString(c.Siblings[0])
			l, rgt := dHonest, s0
			if bits[0] == 1 {
				l, rgt = s0, dHonest
			}
			var sib, num, den, bit fr.Element
			sib.Add(&l, &rgt)
			sib.Sub(&sib, &dFake)
			num.Sub(&l, &dFake)
			den.Sub(&sib, &dFake)
			if den.IsZero() {
				c.Leaf, c.What = leaf, "honest"
				break
			}
			bit.Div(&num, &den)
			c.Siblings = append([]string{}, c.Siblings...)
			c.Siblings[0] = hstr(sib)
			c.BitValues = map[int]string{0: bit.String()}
		case "cap-index-bit-not-boolean":
			i := rapid.IntRange(0, 3).Draw(t, "bit")
			c.CapBits = append([]int{}, c.CapBits...)
			c.CapBits[i] = rapid.SampledFrom([]int{2, 3, 7, 1 << 32}).Draw(t, "value")
		case "selected-cap-entry":
			c.Cap = append([]string{}, cap...)
			c.Cap[slot] = genHashVal().Draw(t, "newcap").String()
		case "unselected-cap-entry":
			c.Cap = append([]string{}, cap...)
			c.Cap[(slot+1+rapid.IntRange(0, 14).Draw(t, "other"))%16] = genHashVal().Draw(t, "newcap").String()
		case "wrong-cap-slot":
			c.Cap = append([]string{}, cap...)
			o := (slot + 1 + rapid.IntRange(0, 14).Draw(t, "other")) % 16
			c.Cap[o], c.Cap[slot] = c.Cap[slot], c.Cap[o]
		}
		return c
	})
}

// realOpening extracts one of the 6 Merkle openings of a query round of a corpus proof.
func realOpening(base string, round, which int) c12Case {
	in := wv.Load(base, 28)
	ch := in.Challenges()
	p := &in.Ref.P.Proof
	rp := p.OpeningProof.QueryRoundProofs[round]
	nlog := int(in.Ref.C.FriParams.DegreeBits + in.Ref.C.FriParams.Config.RateBits)
	idx := ch.QueryIndices[round]
	mk := func(leaf []uint64, index uint64, h int, cap, sib []string) c12Case {
		bits := make([]int, h)
		for i := range bits {
			bits[i] = int(index>>uint(i)) & 1
		}
		return c12Case{Leaf: leaf, Bits: bits, CapBits: bits[h-4:], Cap: cap, Siblings: sib, What: fmt.Sprintf("real %s round %d opening %d", base, round, which)}
	}
	if which < 4 {
		caps := [][]string{in.Ref.V.ConstantsSigmasCap, p.WiresCap, p.ZsCap, p.QuotientCap}
		ep := rp.InitialTreesProof.EvalsProofs[which]
		return mk(ep.Leaf, idx, nlog, caps[which], ep.Proof.Siblings)
	}
	si := which - 4
	h := nlog
	for j := 0; j <= si; j++ {
		ab := in.Ref.C.FriParams.ReductionArityBits[j]
		idx >>= ab
		h -= int(ab)
	}
	var flat []uint64
	for _, e := range rp.Steps[si].Evals {
		flat = append(flat, e[0], e[1])
	}
	return mk(flat, idx, h, p.OpeningProof.CommitPhaseMerkleCaps[si], rp.Steps[si].MerkleProof.Siblings)
}

func TestC12(t *testing.T) {
	s := newSuite("C12")
	r := s.r
	defer r.Flush()
	r.Rule("synthetic trees: height 4..12 (index bits), random leaves of width 1..140 (1 in 4 of width 1..4 to hit the <=3-element shortcut), random/edge indices, random sibling hashes, root placed in the cap slot given by the top four bits; then one corruption drawn from {none, leaf element, leaf length, sibling, index bit (= swapped left/right order at that level), cap-index bit, one index or cap-index bit replaced by a value outside {0,1}, a leaf element re-encoded as value + k*p, a forged pair (a leaf that is not in the tree together with one sibling and one non-boolean index 'bit' chosen so that a linear left/right selection reproduces the honest pair; engine and the gadget compiled to R1CS / SCS), selected cap entry, unselected cap entry (must still accept), root moved to a wrong cap slot}; plus real openings of the corpus proofs (4 initial trees + 2 fold steps per query round) with and without a corrupted leaf element.  Oracle: ACCEPT <=> reference recomputation equals the selected cap entry.  Non-trivial = any corruption or a real opening; distinct = full case.")
	r.Assume("reference PoseidonBN128 (C10)")
	s.on("merkle", func(b json.RawMessage) caseResult {
		c := unmarshal[c12Case](b)
		cr := c12Run(c)
		cr.Trivial = c.What == "honest"
		return cr
	})
	if s.replay(t) {
		return
	}
	rapidCheck(t, "synthetic", tierN(24000, 120000), func(rt *rapid.T) {
		c := genMerkleCase().Draw(rt, "case")
		c.Mode = int(genMode().Draw(rt, "mode"))
		class := "synthetic/" + c.What
		if (c.What == "forged-bit-and-sibling" || c.What == "index-bit-not-boolean" || c.What == "honest") && len(c.Leaf) <= 12 && len(c.Bits) <= 7 && rapid.IntRange(0, 2).Draw(rt, "compiled") == 0 {
			// the gadget compiled with gnark's builders: their Select / Lookup2 differ in what they assert about the selector
			c.Backend = rapid.SampledFrom([]string{"r1cs", "scs", "scs"}).Draw(rt, "backend")
			class += "/compiled-" + c.Backend
		}
		s.exec(rt, "merkle", c, class)
	})
	n := 0
	bases := []string{"A1", "B1"}
	stride := 5
	if rec_thorough() {
		bases, stride = corp.Names, 1
	}
	for _, b := range bases {
		for round := 0; round < 28; round += stride {
			for which := 0; which < 6; which++ {
				n++
				if !mine(n) {
					continue
				}
				c := realOpening(b, round, which)
				c.Mode = int(eng.ModeNative)
				s.exec(t, "merkle", c, "real/honest")
				c2 := c
				c2.Leaf = append([]uint64{}, c.Leaf...)
				c2.Leaf[(round+which)%len(c2.Leaf)] = ref.Add(c2.Leaf[(round+which)%len(c2.Leaf)], 1)
				c2.What += " (leaf element +1)"
				s.exec(t, "merkle", c2, "real/leaf-corrupted")
			}
		}
	}
	r.Done()
}

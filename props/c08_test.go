package props

import (
	"encoding/json"
	"fmt"
	"math/big"
	"testing"

	"verif/cs"
	"verif/eng"
	"verif/ref"

	"github.com/consensys/gnark-crypto/field/goldilocks"
	"github.com/consensys/gnark/frontend"
	gl "github.com/wormhole-foundation/example-near-light-client/goldilocks"
	"pgregory.net/rapid"
)

// C08 Extension-field arithmetic matches GF(p^2) and its degree-2 algebra.

type c08Case struct {
	Op   string      `json:"op"`
	Mode int         `json:"mode"`
	E    [][2]uint64 `json:"operands"` // extension operands
	S    []uint64    `json:"scalars,omitempty"`
	Exp  uint64      `json:"exponent,omitempty"`
	Exp2 uint64      `json:"exponent2,omitempty"`
	// Alias: every extension operand is the *same circuit variable* (e.g. mul(a,a), muladd(a,a,a), div(a,a))
	Alias bool `json:"alias,omitempty"`
}

func toA(a, b [2]uint64) ref.A { return ref.A{toE(a), toE(b)} }

func c08Run(c c08Case) caseResult {
	if c.Alias {
		for i := range c.E {
			c.E[i] = c.E[0]
		}
	}
	in := flatE(toEs(c.E))
	in = append(in, u64s(c.S)...)
	ne := len(c.E)
	E := toEs(c.E)
	type out = []ref.E
	var want out
	congruent := false // outputs compared modulo p only
	expectRej := false
	bitsOut := false
	switch c.Op {
	case "add":
		want = out{ref.EAdd(E[0], E[1])}
	case "sub":
		want = out{ref.ESub(E[0], E[1])}
	case "mul":
		want = out{ref.EMul(E[0], E[1])}
	case "scalarmul":
		want = out{ref.EScal(E[0], c.S[0])}
	case "muladd":
		want = out{ref.EAdd(ref.EMul(E[0], E[1]), E[2])}
	case "submul":
		want = out{ref.EMul(ref.ESub(E[0], E[1]), E[2])}
	case "addnr":
		want, congruent = out{ref.EAdd(E[0], E[1])}, true
	case "subnr":
		want, congruent = out{ref.ESub(E[0], E[1])}, true
	case "mulnr":
		want, congruent = out{ref.EMul(E[0], E[1])}, true
	case "muladdnr":
		want, congruent = out{ref.EAdd(ref.EMul(E[0], E[1]), E[2])}, true
	case "inverse":
		if E[0] == ref.EZero {
			expectRej = true
		} else {
			want = out{ref.EInv(E[0])}
		}
	case "div":
		if E[1] == ref.EZero {
			expectRej = true
		} else {
			want = out{ref.EDiv(E[0], E[1])}
		}
	case "exp":
		want = out{ref.EExp(E[0], c.Exp)}
	case "reducewithpowers":
		want = out{ref.EReduceWithPowers(E[1:], E[0])}
	case "innerproduct":
		acc := E[0]
		for i := 1; i+1 < ne; i += 2 {
			acc = ref.EAdd(acc, ref.EMul(ref.EScal(E[i], c.S[0]), E[i+1]))
		}
		want = out{acc}
	case "iszero":
		bitsOut = true
	case "lookup":
		if c.S[0] == 1 {
			want = out{E[1]}
		} else {
			want = out{E[0]}
		}
	case "lookup2":
		want = out{E[c.S[0]+2*c.S[1]]}
	case "adda":
		a := ref.AAdd(ref.A{E[0], E[1]}, ref.A{E[2], E[3]})
		want = out{a[0], a[1]}
	case "suba":
		a := ref.ASub(ref.A{E[0], E[1]}, ref.A{E[2], E[3]})
		want = out{a[0], a[1]}
	case "mula":
		a := ref.AMul(ref.A{E[0], E[1]}, ref.A{E[2], E[3]})
		want = out{a[0], a[1]}
	case "scalarmula":
		a := ref.AScal(ref.A{E[1], E[2]}, E[0])
		want = out{a[0], a[1]}
	case "partialinterp":
		// operands: point(2), e0(2), p0(2), then values (2 each); scalars: domain[n], weights[n]
		n := (ne - 6) / 2
		pt, ev, pr := ref.A{E[0], E[1]}, ref.A{E[2], E[3]}, ref.A{E[4], E[5]}
		for i := 0; i < n; i++ {
			val := ref.A{E[6+2*i], E[7+2*i]}
			term := ref.ASub(pt, ref.AFromE(ref.EF(c.S[i])))
			nev := ref.AAdd(ref.AMul(ev, term), ref.AMul(ref.AScal(val, ref.EF(c.S[n+i])), pr))
			pr = ref.AMul(pr, term)
			ev = nev
		}
		want = out{ev[0], ev[1], pr[0], pr[1]}
	case "law-inverse":
		if E[0] == ref.EZero {
			expectRej = true
		} else {
			want = out{ref.EOne}
		}
	case "law-div":
		if E[1] == ref.EZero {
			expectRej = true
		} else {
			want = out{E[0]}
		}
	case "law-exp":
		want = out{ref.EZero} // difference exp(a,m+n) - exp(a,m)*exp(a,n)
	default:
		panic("bad op " + c.Op)
	}
	fn := func(api frontend.API, v []frontend.Variable) []frontend.Variable {
		g := gl.New(api)
		e := func(i int) gl.QuadraticExtensionVariable {
			if c.Alias {
				i = 0
			}
			return qev(v[2*i], v[2*i+1])
		}
		sc := func(i int) frontend.Variable { return v[2*ne+i] }
		one := func(x gl.QuadraticExtensionVariable) []frontend.Variable {
			return []frontend.Variable{x[0].Limb, x[1].Limb}
		}
		alg := func(i int) gl.QuadraticExtensionAlgebraVariable {
			return gl.QuadraticExtensionAlgebraVariable{e(i), e(i + 1)}
		}
		oneA := func(a gl.QuadraticExtensionAlgebraVariable) []frontend.Variable {
			return []frontend.Variable{a[0][0].Limb, a[0][1].Limb, a[1][0].Limb, a[1][1].Limb}
		}
		switch c.Op {
		case "add":
			return one(g.AddExtension(e(0), e(1)))
		case "sub":
			return one(g.SubExtension(e(0), e(1)))
		case "mul":
			return one(g.MulExtension(e(0), e(1)))
		case "scalarmul":
			return one(g.ScalarMulExtension(e(0), glv(sc(0))))
		case "muladd":
			return one(g.MulAddExtension(e(0), e(1), e(2)))
		case "submul":
			return one(g.SubMulExtension(e(0), e(1), e(2)))
		case "addnr":
			return one(g.AddExtensionNoReduce(e(0), e(1)))
		case "subnr":
			return one(g.SubExtensionNoReduce(e(0), e(1)))
		case "mulnr":
			return one(g.MulExtensionNoReduce(e(0), e(1)))
		case "muladdnr":
			return one(g.MulAddExtensionNoReduce(e(0), e(1), e(2)))
		case "inverse":
			r, has := g.InverseExtension(e(0))
			api.AssertIsEqual(has, 1)
			return one(r)
		case "div":
			r, has := g.DivExtension(e(0), e(1))
			api.AssertIsEqual(has, 1)
			return one(r)
		case "exp":
			return one(g.ExpExtension(e(0), c.Exp))
		case "reducewithpowers":
			var terms []gl.QuadraticExtensionVariable
			for i := 1; i < ne; i++ {
				terms = append(terms, e(i))
			}
			return one(g.ReduceWithPowers(terms, e(0)))
		case "innerproduct":
			var pairs [][2]gl.QuadraticExtensionVariable
			for i := 1; i+1 < ne; i += 2 {
				pairs = append(pairs, [2]gl.QuadraticExtensionVariable{e(i), e(i + 1)})
			}
			return one(g.InnerProductExtension(glv(sc(0)), e(0), pairs))
		case "iszero":
			return []frontend.Variable{g.IsZero(e(0))}
		case "lookup":
			return one(g.Lookup(sc(0), e(0), e(1)))
		case "lookup2":
			return one(g.Lookup2(sc(0), sc(1), e(0), e(1), e(2), e(3)))
		case "adda":
			return oneA(g.AddExtensionAlgebra(alg(0), alg(2)))
		case "suba":
			return oneA(g.SubExtensionAlgebra(alg(0), alg(2)))
		case "mula":
			return oneA(g.MulExtensionAlgebra(alg(0), alg(2)))
		case "scalarmula":
			return oneA(g.ScalarMulExtensionAlgebra(e(0), alg(1)))
		case "partialinterp":
			n := (ne - 6) / 2
			var dom, ws []goldilocks.Element
			var vals []gl.QuadraticExtensionAlgebraVariable
			for i := 0; i < n; i++ {
				dom = append(dom, goldilocks.NewElement(c.S[i]))
				ws = append(ws, goldilocks.NewElement(c.S[n+i]))
				vals = append(vals, alg(6+2*i))
			}
			ev, pr := g.PartialInterpolateExtAlgebra(dom, vals, ws, alg(0), alg(2), alg(4))
			return append(oneA(ev), oneA(pr)...)
		case "law-inverse":
			r, _ := g.InverseExtension(e(0))
			return one(g.MulExtension(r, e(0)))
		case "law-div":
			r, _ := g.DivExtension(e(0), e(1))
			return one(g.MulExtension(r, e(1)))
		case "law-exp":
			l := g.ExpExtension(e(0), c.Exp+c.Exp2)
			rr := g.MulExtension(g.ExpExtension(e(0), c.Exp), g.ExpExtension(e(0), c.Exp2))
			return one(g.SubExtension(l, rr))
		}
		panic("bad op")
	}
	name := "ext/" + c.Op
	if expectRej {
		return expectReject(name+"[zero]", eng.Mode(c.Mode), in, fn)
	}
	if bitsOut {
		w := big.NewInt(0)
		if E[0] == ref.EZero {
			w = big.NewInt(1)
		}
		return expectOutputs(name, eng.Mode(c.Mode), in, fn, []*big.Int{w})
	}
	if !congruent {
		return expectOutputs(name, eng.Mode(c.Mode), in, fn, flatE(want))
	}
	// congruence: run and compare residues
	cr := expectOutputsMod(name, eng.Mode(c.Mode), in, fn, flatE(want))
	return cr
}

// ---------- operation sequences over the extension API (values reused by later calls) ----------
type extOp struct {
	Op   string `json:"op"` // add sub mul muladd submul
	Args [3]int `json:"args"`
}
type extProg struct {
	Backend string      `json:"backend"` // eng | r1cs | scs
	Mode    int         `json:"mode"`
	Inputs  [][2]uint64 `json:"inputs"`
	Ops     []extOp     `json:"ops"`
}

func runExtProg(p extProg) caseResult {
	pool := toEs(p.Inputs)
	for _, o := range p.Ops {
		a, b, c := pool[o.Args[0]], pool[o.Args[1]], pool[o.Args[2]]
		var r ref.E
		switch o.Op {
		case "add":
			r = ref.EAdd(a, b)
		case "sub":
			r = ref.ESub(a, b)
		case "mul":
			r = ref.EMul(a, b)
		case "muladd":
			r = ref.EAdd(ref.EMul(a, b), c)
		case "submul":
			r = ref.EMul(ref.ESub(a, b), c)
		}
		pool = append(pool, r)
	}
	fn := func(api frontend.API, v []frontend.Variable) []frontend.Variable {
		g := gl.New(api)
		var vp []gl.QuadraticExtensionVariable
		for i := 0; i+1 < len(v); i += 2 {
			vp = append(vp, qev(v[i], v[i+1]))
		}
		for _, o := range p.Ops {
			a, b, c := vp[o.Args[0]], vp[o.Args[1]], vp[o.Args[2]]
			var r gl.QuadraticExtensionVariable
			switch o.Op {
			case "add":
				r = g.AddExtension(a, b)
			case "sub":
				r = g.SubExtension(a, b)
			case "mul":
				r = g.MulExtension(a, b)
			case "muladd":
				r = g.MulAddExtension(a, b, c)
			case "submul":
				r = g.SubMulExtension(a, b, c)
			}
			vp = append(vp, r)
		}
		return flatQE(vp)
	}
	in, want := flatE(toEs(p.Inputs)), flatE(pool)
	if p.Backend == "eng" {
		return expectOutputsEng("ext-program", eng.Mode(p.Mode), in, fn, want)
	}
	kind := cs.R1CS
	if p.Backend == "scs" {
		kind = cs.SCS
	}
	mech := cs.MechForcedBits
	if p.Mode == 1 {
		mech = cs.MechNative
	}
	sys, err := cs.Compile(kind, mech, len(in), len(want), fn)
	if err != nil {
		return caseResult{Viol: "ext-program/compile", Desc: fmt.Sprintf("program %v does not compile for %s: %v", p.Ops, p.Backend, err)}
	}
	if err := sys.Solve(in, want); err != nil {
		return caseResult{Viol: "ext-program/" + p.Backend, Desc: fmt.Sprintf("extension program %v on inputs %v: compiled %s system rejects the honest witness with the GF(p^2) results as expected outputs: %v", p.Ops, p.Inputs, p.Backend, truncate(err.Error(), 200))}
	}
	return caseResult{}
}

func TestC08(t *testing.T) {
	s := newSuite("C08")
	r := s.r
	defer r.Flush()
	r.Rule("operand tuples over GF(p^2) with every coordinate drawn from {0,1,p-1,2^32-1,2^32,2^63,p-2^32,...} mixed with uniform values, through every extension-field gadget (add, sub, mul, scalar mul, mul-add, sub-mul, the NoReduce variants (checked modulo p), inverse, div, exp with exponents 0..2^20 and random 64-bit, ReduceWithPowers and InnerProductExtension on lists of length 0..300, IsZero, Lookup, Lookup2) and the degree-2 algebra (add, sub, mul, scalar mul, PartialInterpolateExtAlgebra on random domains/weights of 1..8 points) and compared with the reference GF(p^2)/algebra; inverse/div of zero must be rejected; sequences of 2..8 extension operations over a value pool (operands biased to recent results, one in four calls with the same variable on both sides) on the engine and compiled to R1CS/SCS; metamorphic field laws evaluated in circuit: a*a^-1=1, (a/b)*b=a, a^(m+n)=a^m*a^n.  Non-trivial = some operand has a non-zero imaginary part or an edge coordinate; distinct = (op, operands).")
	r.Assume("reference GF(p^2) arithmetic (30 lines, validated through real-proof acceptance)")
	s.on("ext", func(b json.RawMessage) caseResult {
		c := unmarshal[c08Case](b)
		cr := c08Run(c)
		nt := false
		for _, e := range c.E {
			if e[1] != 0 || isEdgeVal(e[0]) {
				nt = true
			}
		}
		cr.Trivial = !nt
		return cr
	})
	s.on("extprog", func(b json.RawMessage) caseResult { return runExtProg(unmarshal[extProg](b)) })
	if s.replay(t) {
		return
	}
	rapidCheck(t, "extprog", tierN(1200, 40000), func(rt *rapid.T) {
		p := extProg{Backend: rapid.SampledFrom([]string{"eng", "r1cs", "r1cs", "scs"}).Draw(rt, "backend"), Mode: rapid.IntRange(0, 1).Draw(rt, "mode")}
		n := rapid.IntRange(1, 3).Draw(rt, "inputs")
		for i := 0; i < n; i++ {
			p.Inputs = append(p.Inputs, e2(genE().Draw(rt, "in")))
		}
		size := n
		steps := rapid.IntRange(2, 8).Draw(rt, "steps")
		for i := 0; i < steps; i++ {
			lo := 0
			if size > 3 && rapid.Bool().Draw(rt, "recent") {
				lo = size - 3
			}
			pick := func(name string) int { return rapid.IntRange(lo, size-1).Draw(rt, name) }
			o := extOp{Op: rapid.SampledFrom([]string{"add", "sub", "mul", "muladd", "submul"}).Draw(rt, "op")}
			o.Args = [3]int{pick("a"), pick("b"), pick("c")}
			if rapid.IntRange(0, 3).Draw(rt, "same") == 0 {
				o.Args[1] = o.Args[0] // same variable on both sides, e.g. add(x,x)
			}
			p.Ops = append(p.Ops, o)
			size++
		}
		s.exec(rt, "extprog", p, "ext-program/"+p.Backend)
	})
	ops := []string{"add", "sub", "mul", "scalarmul", "muladd", "submul", "addnr", "subnr", "mulnr", "muladdnr", "inverse", "div", "exp", "exp", "reducewithpowers", "innerproduct", "iszero", "lookup", "lookup2", "adda", "suba", "mula", "scalarmula", "partialinterp", "law-inverse", "law-div", "law-exp"}
	arity := map[string]int{"add": 2, "sub": 2, "mul": 2, "scalarmul": 1, "muladd": 3, "submul": 3, "addnr": 2, "subnr": 2, "mulnr": 2, "muladdnr": 3, "inverse": 1, "div": 2, "exp": 1, "iszero": 1, "lookup": 2, "lookup2": 4, "adda": 4, "suba": 4, "mula": 4, "scalarmula": 3, "law-inverse": 1, "law-div": 2, "law-exp": 1}
	genExp := func(rt *rapid.T) uint64 {
		switch rapid.IntRange(0, 3).Draw(rt, "ekind") {
		case 0:
			return uint64(rapid.IntRange(0, 4).Draw(rt, "e"))
		case 1:
			return uint64(rapid.IntRange(0, 1<<20).Draw(rt, "e"))
		case 2:
			return rapid.SampledFrom([]uint64{1 << 20, 1<<32 - 1, 1 << 63, ^uint64(0), ref.P - 1, ref.P - 2}).Draw(rt, "e")
		}
		return rapid.Uint64().Draw(rt, "e")
	}
	rapidCheck(t, "ext", tierN(20000, 220000), func(rt *rapid.T) {
		op := rapid.SampledFrom(ops).Draw(rt, "op")
		c := c08Case{Op: op, Mode: int(genMode().Draw(rt, "mode"))}
		ge := func() [2]uint64 {
			if (op == "inverse" || op == "div" || op == "iszero" || op == "law-inverse" || op == "law-div") && rapid.IntRange(0, 7).Draw(rt, "zero") == 0 {
				return [2]uint64{0, 0}
			}
			return e2(genE().Draw(rt, "e"))
		}
		switch op {
		case "reducewithpowers":
			n := rapid.IntRange(0, 300).Draw(rt, "len")
			if rapid.IntRange(0, 2).Draw(rt, "short") != 0 {
				n = rapid.IntRange(0, 12).Draw(rt, "shortlen")
			}
			for i := 0; i <= n; i++ {
				c.E = append(c.E, ge())
			}
		case "innerproduct":
			n := rapid.IntRange(0, 150).Draw(rt, "pairs")
			if rapid.IntRange(0, 2).Draw(rt, "short") != 0 {
				n = rapid.IntRange(0, 8).Draw(rt, "fewpairs")
			}
			for i := 0; i < 1+2*n; i++ {
				c.E = append(c.E, ge())
			}
			c.S = []uint64{rapid.SampledFrom([]uint64{1, 7, ref.P - 1}).Draw(rt, "constant")}
			if rapid.Bool().Draw(rt, "rndconst") {
				c.S = []uint64{genGL().Draw(rt, "constant")}
			}
		case "partialinterp":
			n := rapid.IntRange(1, 8).Draw(rt, "points")
			for i := 0; i < 6+2*n; i++ {
				c.E = append(c.E, ge())
			}
			for i := 0; i < 2*n; i++ {
				c.S = append(c.S, genGL().Draw(rt, "domain_or_weight"))
			}
		default:
			for i := 0; i < arity[op]; i++ {
				c.E = append(c.E, ge())
			}
		}
		switch op {
		case "scalarmul":
			c.S = []uint64{genGL().Draw(rt, "s")}
		case "lookup":
			c.S = []uint64{uint64(rapid.IntRange(0, 1).Draw(rt, "b"))}
		case "lookup2":
			c.S = []uint64{uint64(rapid.IntRange(0, 1).Draw(rt, "b0")), uint64(rapid.IntRange(0, 1).Draw(rt, "b1"))}
		case "exp":
			c.Exp = genExp(rt)
		case "law-exp":
			c.Exp, c.Exp2 = genExp(rt)>>1, genExp(rt)>>1
		}
		class := "ext/" + op
		if arity[op] >= 2 && rapid.IntRange(0, 5).Draw(rt, "alias") == 0 {
			c.Alias = true
			class += "/aliased-operands"
		}
		s.exec(rt, "ext", c, class)
	})
	r.Done()
}

func isEdgeVal(x uint64) bool {
	for _, e := range glEdges {
		if x == e {
			return true
		}
	}
	for _, e := range glEdgesMore {
		if x == e {
			return true
		}
	}
	return false
}

var _ = fmt.Sprint

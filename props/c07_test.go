package props

import (
	"fmt"
	"math/big"
	"testing"

	"verif/cs"
	"verif/eng"
	"verif/gad"
	"verif/rec"
	"verif/ref"

	"github.com/consensys/gnark/frontend"
	gl "github.com/wormhole-foundation/example-near-light-client/goldilocks"
	"pgregory.net/rapid"
)

// C07 Base-field gadgets compute exact Goldilocks results for all operands.
//
// Oracle: native uint64 Goldilocks arithmetic of package ref.  One engine run evaluates every
// base-field gadget on one operand triple; the concrete outputs are read back and compared.

var c07Ops = []string{"Add", "Sub", "Mul", "MulAdd", "AddNoReduce", "SubNoReduce", "MulNoReduce", "MulAddNoReduce", "Reduce(a*b+c)", "Inverse", "hasInv", "Inverse*a"}

func c07Gadget(api frontend.API, in []frontend.Variable) []frontend.Variable {
	c := gl.New(api)
	a, b, d := glv(in[0]), glv(in[1]), glv(in[2])
	inv, has := c.Inverse(a)
	return []frontend.Variable{
		c.Add(a, b).Limb, c.Sub(a, b).Limb, c.Mul(a, b).Limb, c.MulAdd(a, b, d).Limb,
		c.AddNoReduce(a, b).Limb, c.SubNoReduce(a, b).Limb, c.MulNoReduce(a, b).Limb, c.MulAddNoReduce(a, b, d).Limb,
		c.Reduce(c.MulAddNoReduce(a, b, d)).Limb,
		inv.Limb, has, c.Mul(inv, a).Limb,
	}
}

type c07Replay struct {
	Kind  string   `json:"kind"`
	Mode  int      `json:"mode"`
	In    []string `json:"in"`
	Bits  uint64   `json:"bits,omitempty"`
	Prog  *glProg  `json:"program,omitempty"`
	CMask uint64   `json:"constant_operand_mask,omitempty"` // bit i: operand i is a circuit constant, not a witness variable
}

// maskFn turns the operands selected by cmask into circuit constants (gl.NewVariable(c) style).
func maskFn(fn gad.Fn, in []*big.Int, cmask uint64) (gad.Fn, []*big.Int) {
	if cmask == 0 {
		return fn, in
	}
	var rest []*big.Int
	for i := range in {
		if (cmask>>uint(i))&1 == 0 {
			rest = append(rest, in[i])
		}
	}
	return func(api frontend.API, vin []frontend.Variable) []frontend.Variable {
		full := make([]frontend.Variable, len(in))
		k := 0
		for i := range in {
			if (cmask>>uint(i))&1 == 1 {
				full[i] = new(big.Int).Set(in[i])
			} else {
				full[i] = vin[k]
				k++
			}
		}
		return fn(api, full)
	}, rest
}

// c07CheckOps returns "" or a description of the first wrong result.
func c07CheckOps(m eng.Mode, a, b, c uint64, cmask uint64) (string, string) {
	fn, rest := maskFn(c07Gadget, bigs(a, b, c), cmask)
	res, out := gad.Run(modeOpt(m), rest, fn)
	if res.Outcome != eng.Accept {
		return "verdict", fmt.Sprintf("honest canonical operands (%d,%d,%d) not accepted: %s", a, b, c, fmtRes(res))
	}
	if res.TolerantHints > 0 {
		return "shipped-hint-failed", fmt.Sprintf("operands (%d,%d,%d): %d shipped hint function(s) panicked or erred on honest operands", a, b, c, res.TolerantHints)
	}
	mulAdd := ref.Add(ref.Mul(a, b), c)
	exact := []uint64{ref.Add(a, b), ref.Sub(a, b), ref.Mul(a, b), mulAdd}
	for i, w := range exact {
		if out[i].Cmp(bu(w)) != 0 {
			return c07Ops[i], fmt.Sprintf("%s(%d,%d,%d) = %s, want %d", c07Ops[i], a, b, c, out[i], w)
		}
	}
	for i, w := range exact {
		got := new(big.Int).Mod(out[4+i], bigP)
		if got.Cmp(bu(w)) != 0 {
			return c07Ops[4+i], fmt.Sprintf("%s(%d,%d,%d) = %s, not congruent to %d mod p", c07Ops[4+i], a, b, c, out[4+i], w)
		}
	}
	if out[8].Cmp(bu(mulAdd)) != 0 {
		return c07Ops[8], fmt.Sprintf("Reduce(%d*%d+%d) = %s, want %d", a, b, c, out[8], mulAdd)
	}
	if a == 0 {
		if out[10].Sign() != 0 {
			return "hasInv", "Inverse(0) reports an inverse"
		}
	} else {
		if out[10].Cmp(big.NewInt(1)) != 0 {
			return "hasInv", fmt.Sprintf("Inverse(%d) reports no inverse", a)
		}
		if out[9].Cmp(bu(ref.Inv(a))) != 0 {
			return "Inverse", fmt.Sprintf("Inverse(%d) = %s, want %d", a, out[9], ref.Inv(a))
		}
		if out[11].Cmp(big.NewInt(1)) != 0 {
			return "Inverse*a", fmt.Sprintf("Inverse(%d)*%d = %s", a, a, out[11])
		}
	}
	return "", ""
}

func c07ReduceGadget(bits uint64) gad.Fn {
	return func(api frontend.API, in []frontend.Variable) []frontend.Variable {
		c := gl.New(api)
		if bits == 0 {
			return []frontend.Variable{c.Reduce(glv(in[0])).Limb}
		}
		return []frontend.Variable{c.ReduceWithMaxBits(glv(in[0]), bits).Limb}
	}
}

// c07CheckReduce: x < 2^bits*p must be accepted and reduced; any x must never be accepted with
// a wrong residue (with honest hints).
func c07CheckReduce(m eng.Mode, x *big.Int, bits uint64, cmask uint64) (string, string) {
	w := bits
	if w == 0 {
		w = 144
	}
	fn, rest := maskFn(c07ReduceGadget(bits), []*big.Int{x}, cmask)
	res, out := gad.Run(modeOpt(m), rest, fn)
	limit := new(big.Int).Mul(pow2(uint(w)), bigP)
	want := new(big.Int).Mod(x, bigP)
	if x.Cmp(limit) < 0 {
		if res.Outcome != eng.Accept {
			return "reduce-verdict", fmt.Sprintf("Reduce[%d bits](%s) (< 2^%d*p) not accepted: %s", bits, x, w, fmtRes(res))
		}
		if res.TolerantHints > 0 {
			return "reduce-hint-failed", fmt.Sprintf("Reduce[%d bits](%s) (< 2^%d*p): the shipped ReduceHint failed on an admissible input", bits, x, w)
		}
	}
	if res.Outcome == eng.Accept && out[0].Cmp(want) != 0 {
		return "reduce-value", fmt.Sprintf("Reduce[%d bits](%s) = %s, want %s", bits, x, out[0], want)
	}
	if res.Outcome == eng.Refused {
		return "reduce-refused", fmt.Sprintf("Reduce[%d bits](%s) refused: %s", bits, x, fmtRes(res))
	}
	return "", ""
}

// ---------- straight-line programs over the chip API (operation sequences) ----------
// A program is a sequence of gadget calls over a pool of values; every result is compared with
// integer arithmetic.  Run on the engine and on compiled R1CS / SCS systems, this reaches bugs
// that need a particular composition of calls (e.g. a builder reusing the backing array of a
// linear expression when one NoReduce result is used as the addend of two later calls).

type glOp struct {
	Op      string `json:"op"`
	A, B, C int    `json:"-"`
	Args    [3]int `json:"args"`
}

type glProg struct {
	Backend string   `json:"backend"` // eng | r1cs | scs
	Mode    int      `json:"mode"`
	Inputs  []uint64 `json:"inputs"`
	Ops     []glOp   `json:"ops"`
	CMask   uint64   `json:"constant_input_mask,omitempty"`
}

type progVal struct {
	v       *big.Int
	reduced bool
	bits    int
}

// evalProg computes the expected integer value of every pool entry.
func evalProg(p glProg) []*big.Int {
	var pool []*big.Int
	for _, x := range p.Inputs {
		pool = append(pool, bu(x))
	}
	pm1 := new(big.Int).Sub(bigP, big.NewInt(1))
	for _, o := range p.Ops {
		a, b, c := pool[o.Args[0]], pool[o.Args[1]], pool[o.Args[2]]
		r := new(big.Int)
		switch o.Op {
		case "Add":
			r.Add(a, b).Mod(r, bigP)
		case "Sub":
			r.Sub(a, b).Mod(r, bigP)
		case "Mul":
			r.Mul(a, b).Mod(r, bigP)
		case "MulAdd":
			r.Mul(a, b).Add(r, c).Mod(r, bigP)
		case "AddNoReduce":
			r.Add(a, b)
		case "SubNoReduce":
			r.Mul(b, pm1).Add(r, a)
		case "MulNoReduce":
			r.Mul(a, b)
		case "MulAddNoReduce":
			r.Mul(a, b).Add(r, c)
		case "Reduce":
			r.Mod(a, bigP)
		default:
			panic("bad op " + o.Op)
		}
		pool = append(pool, r)
	}
	return pool
}

func progFn(p glProg) gad.Fn {
	return func(api frontend.API, in []frontend.Variable) []frontend.Variable {
		c := gl.New(api)
		pool := make([]gl.Variable, 0, len(in)+len(p.Ops))
		for _, x := range in {
			pool = append(pool, glv(x))
		}
		for _, o := range p.Ops {
			a, b, d := pool[o.Args[0]], pool[o.Args[1]], pool[o.Args[2]]
			var r gl.Variable
			switch o.Op {
			case "Add":
				r = c.Add(a, b)
			case "Sub":
				r = c.Sub(a, b)
			case "Mul":
				r = c.Mul(a, b)
			case "MulAdd":
				r = c.MulAdd(a, b, d)
			case "AddNoReduce":
				r = c.AddNoReduce(a, b)
			case "SubNoReduce":
				r = c.SubNoReduce(a, b)
			case "MulNoReduce":
				r = c.MulNoReduce(a, b)
			case "MulAddNoReduce":
				r = c.MulAddNoReduce(a, b, d)
			case "Reduce":
				r = c.Reduce(a)
			}
			pool = append(pool, r)
		}
		out := make([]frontend.Variable, len(pool))
		for i := range pool {
			out[i] = pool[i].Limb
		}
		return out
	}
}

func genProg() *rapid.Generator[glProg] {
	return rapid.Custom(func(t *rapid.T) glProg {
		p := glProg{}
		n := rapid.IntRange(2, 5).Draw(t, "inputs")
		var meta []progVal
		for i := 0; i < n; i++ {
			x := genGL().Draw(t, "in")
			p.Inputs = append(p.Inputs, x)
			meta = append(meta, progVal{reduced: true, bits: 64})
		}
		steps := rapid.IntRange(2, 12).Draw(t, "steps")
		ops := []string{"Add", "Sub", "Mul", "MulAdd", "AddNoReduce", "SubNoReduce", "MulNoReduce", "MulAddNoReduce", "MulAddNoReduce", "Reduce"}
		var reducedIdx func() []int
		reducedIdx = func() []int {
			var o []int
			for i, m := range meta {
				if m.reduced {
					o = append(o, i)
				}
			}
			return o
		}
		for s := 0; s < steps; s++ {
			op := rapid.SampledFrom(ops).Draw(t, "op")
			pick := func(pool []int, name string) int { return pool[rapid.IntRange(0, len(pool)-1).Draw(t, name)] }
			all := make([]int, len(meta))
			for i := range all {
				all[i] = i
			}
			// bias operands towards recent results so that values are reused in later calls
			recent := all
			if len(all) > 3 && rapid.Bool().Draw(t, "recent") {
				recent = all[len(all)-3:]
			}
			var a, b, c int
			var m progVal
			switch op {
			case "Add", "Sub", "Mul", "MulAdd":
				ri := reducedIdx()
				a, b, c = pick(ri, "a"), pick(ri, "b"), pick(ri, "c")
				m = progVal{reduced: true, bits: 64}
			case "Reduce":
				a = pick(recent, "a")
				b, c = a, a
				if meta[a].bits > 206 {
					a = pick(reducedIdx(), "a2")
					b, c = a, a
				}
				m = progVal{reduced: true, bits: 64}
			default:
				a, b, c = pick(recent, "a"), pick(recent, "b"), pick(recent, "c")
				var bits int
				switch op {
				case "AddNoReduce":
					bits = maxInt(meta[a].bits, meta[b].bits) + 1
				case "SubNoReduce":
					bits = maxInt(meta[a].bits, meta[b].bits+64) + 1
				case "MulNoReduce":
					bits = meta[a].bits + meta[b].bits
				case "MulAddNoReduce":
					bits = maxInt(meta[a].bits+meta[b].bits, meta[c].bits) + 1
				}
				if bits > 200 {
					// keep every intermediate far from the BN254 modulus and within Reduce's range
					op = "Reduce"
					b, c = a, a
					if meta[a].bits > 206 {
						a = pick(reducedIdx(), "a3")
						b, c = a, a
					}
					m = progVal{reduced: true, bits: 64}
				} else {
					m = progVal{bits: bits}
				}
			}
			p.Ops = append(p.Ops, glOp{Op: op, Args: [3]int{a, b, c}})
			meta = append(meta, m)
		}
		return p
	})
}

var progSystems = map[string]bool{}

func runProg(p glProg) (string, string) {
	want := evalProg(p)
	fn, in := maskFn(progFn(p), u64s(p.Inputs), p.CMask)
	switch p.Backend {
	case "eng":
		res, out := gad.Run(eng.Options{Mode: eng.Mode(p.Mode)}, in, fn)
		if res.Outcome != eng.Accept {
			return "program/eng-not-accepted", fmt.Sprintf("program %v on inputs %v: %s", p.Ops, p.Inputs, fmtRes(res))
		}
		if res.TolerantHints > 0 {
			return "program/shipped-hint-failed", fmt.Sprintf("program %v on inputs %v: a shipped hint failed on honest values", p.Ops, p.Inputs)
		}
		for i := range want {
			if out[i].Cmp(want[i]) != 0 {
				return "program/eng-value", fmt.Sprintf("program %v on inputs %v: value #%d = %s, integer arithmetic gives %s", p.Ops, p.Inputs, i, out[i], want[i])
			}
		}
	default:
		kind := cs.R1CS
		if p.Backend == "scs" {
			kind = cs.SCS
		}
		mech := cs.MechForcedBits
		if p.Mode == 1 {
			mech = cs.MechNative
		}
		sys, err := cs.Compile(kind, mech, len(in), len(want), fn)
		if err != nil {
			if p.CMask != 0 && isGnarkScsZeroCoeffBug(err) {
				return "", "" // gnark's builder, not the repository: see isGnarkScsZeroCoeffBug
			}
			return "program/compile", fmt.Sprintf("program %v does not compile for %s: %v", p.Ops, p.Backend, err)
		}
		if err := sys.Solve(in, want); err != nil {
			return "program/" + p.Backend, fmt.Sprintf("program %v on inputs %v: compiled %s system rejects the honest witness with the integer-arithmetic results as expected outputs: %v", p.Ops, p.Inputs, p.Backend, truncate(err.Error(), 200))
		}
	}
	return "", ""
}

func TestC07(t *testing.T) {
	r := rec.New("C07")
	defer r.Flush()
	r.Rule("operand triples over Goldilocks: all 7^3 combinations of the edge set {0,1,2^32-1,2^32,2^63,p-2^32,p-1} (deterministic) plus rapid-generated triples (edges mixed with uniform), each evaluated through every base-field gadget (Add,Sub,Mul,MulAdd,*NoReduce,Reduce,Inverse) in one engine run on a drawn range-check flavour and compared with native uint64 arithmetic; Reduce/ReduceWithMaxBits inputs drawn from [0,2^b*p) (must be accepted and reduced) and from [2^b*p, r) (must not be mis-reduced).  Non-trivial = at least one operand is an edge value, or the integer a*b+c crosses a multiple of 2^64, or the reduce input is >= p.  Distinct = (operands, flavour).  (4) straight-line programs of 2..12 gadget calls over a pool of 2..5 inputs and all earlier results (operands biased to recent results so values are reused; NoReduce growth bounded below 2^200), executed on the engine and compiled to R1CS and SCS, every pool value compared with integer arithmetic; non-trivial program = some intermediate result is used by more than one later call.  (5) in every group a fraction of the cases supplies some or all operands as circuit constants instead of witness variables (the engine reports them through Compiler().ConstantValue exactly as gnark's builders do; programs also compiled): the results must not depend on how an operand is supplied.")
	r.Assume("engine semantics of frontend.API (validated against gnark's own engine and compiled R1CS/SCS in the C06 check)", "honest hint functions as shipped")

	var rp c07Replay
	if is, err := rec.LoadReplay(&rp); is {
		if err != nil {
			r.Infra(t, "replay: %v", err)
		}
		var in []*big.Int
		if rp.Kind != "program" {
			in = unstrs(rp.In)
		}
		var k, d string
		if rp.Kind == "ops" {
			k, d = c07CheckOps(eng.Mode(rp.Mode), in[0].Uint64(), in[1].Uint64(), in[2].Uint64(), rp.CMask)
		} else if rp.Kind == "program" {
			k, d = runProg(*rp.Prog)
		} else {
			k, d = c07CheckReduce(eng.Mode(rp.Mode), in[0], rp.Bits, rp.CMask)
		}
		r.Case("replay", true, fmt.Sprint(rp), func() any { return rp })
		if k != "" {
			r.Fail(t, "C07/"+k, rp, "%s", d)
		}
		r.Done()
		return
	}

	isEdge := func(x uint64) bool {
		for _, e := range glEdges {
			if x == e {
				return true
			}
		}
		return false
	}
	doOps := func(tb rec.TB, m eng.Mode, a, b, c uint64, class string, cmask uint64) {
		hi := new(big.Int).Mul(bu(a), bu(b))
		hi.Add(hi, bu(c))
		nt := isEdge(a) || isEdge(b) || isEdge(c) || hi.BitLen() > 64
		if cmask != 0 {
			class += "/constant-operands"
		}
		r.Case(class, nt, fmt.Sprint(m, a, b, c, cmask), func() any {
			return map[string]any{"mode": m.String(), "a": a, "b": b, "c": c, "constant_operand_mask": cmask}
		})
		if k, d := c07CheckOps(m, a, b, c, cmask); k != "" {
			if cmask != 0 {
				d = fmt.Sprintf("[operands with mask bit set in %#b given as circuit constants] %s", cmask, d)
			}
			r.Fail(tb, "C07/"+k, c07Replay{Kind: "ops", Mode: int(m), In: strs(bigs(a, b, c)), CMask: cmask}, "%s", d)
		}
	}

	// 1. all edge triples (deterministic, sharded); flavour alternates
	i := 0
	for _, a := range glEdges {
		for _, b := range glEdges {
			for _, c := range glEdges {
				if rec.Mine(i) {
					m := eng.ModeNative
					if i%3 == 1 {
						m = eng.ModePlain
					}
					doOps(t, m, a, b, c, "edge-triple", 0)
					if i%4 == 0 {
						doOps(t, m, a, b, c, "edge-triple", uint64(1+(i/4)%7))
					}
				}
				i++
			}
		}
	}

	// 2. random triples
	rapidCheck(t, "ops", tierN(36000, 300000), func(rt *rapid.T) {
		a, b, c := genGL().Draw(rt, "a"), genGL().Draw(rt, "b"), genGL().Draw(rt, "c")
		var cmask uint64
		if rapid.IntRange(0, 5).Draw(rt, "const") == 0 {
			cmask = uint64(rapid.IntRange(1, 7).Draw(rt, "cmask"))
		}
		doOps(rt, genMode().Draw(rt, "mode"), a, b, c, "random-triple", cmask)
	})

	// 3. reduce
	widths := []uint64{0, 0, 0, 64, 80, 96, 128, 144}
	rapidCheck(t, "reduce", tierN(24000, 200000), func(rt *rapid.T) {
		bits := rapid.SampledFrom(widths).Draw(rt, "bits")
		w := bits
		if w == 0 {
			w = 144
		}
		limit := new(big.Int).Mul(pow2(uint(w)), bigP)
		var x *big.Int
		class := "reduce-in-range"
		if rapid.IntRange(0, 5).Draw(rt, "above") == 0 {
			class = "reduce-above-range"
			x = genBigBelow(new(big.Int).Sub(bigR, limit)).Draw(rt, "x")
			x.Add(x, limit)
		} else {
			x = genBigBelow(limit).Draw(rt, "x")
			if rapid.IntRange(0, 5).Draw(rt, "edge") == 0 {
				// around the prime, around 2^64 and around small multiples of the prime
				base := rapid.SampledFrom([]*big.Int{bigP, pow2(64), new(big.Int).Lsh(bigP, 1), new(big.Int).Mul(bigP, big.NewInt(3)), new(big.Int).Mul(bigP, bigP), new(big.Int).Lsh(bigP, 64), pow2(128)}).Draw(rt, "around")
				x = new(big.Int).Add(base, big.NewInt(int64(rapid.IntRange(-2, 2).Draw(rt, "delta"))))
				if x.Cmp(limit) >= 0 {
					x.Sub(limit, big.NewInt(1))
				}
				class = "reduce-in-range/edge"
			}
		}
		m := genMode().Draw(rt, "mode")
		var cmask uint64
		if rapid.IntRange(0, 4).Draw(rt, "const") == 0 {
			cmask = 1
			class += "/constant-operand"
		}
		r.Case(class, x.Cmp(bigP) >= 0, fmt.Sprint(m, bits, x, cmask), func() any {
			return map[string]any{"mode": m.String(), "bits": bits, "x": x.String(), "constant_operand": cmask == 1}
		})
		if k, d := c07CheckReduce(m, x, bits, cmask); k != "" {
			if cmask != 0 {
				d = "[operand given as a circuit constant] " + d
			}
			r.Fail(rt, "C07/"+k, c07Replay{Kind: "reduce", Mode: int(m), In: strs([]*big.Int{x}), Bits: bits, CMask: cmask}, "%s", d)
		}
	})

	// 4. operation sequences on the engine and on compiled systems
	rapidCheck(t, "programs", tierN(5000, 60000), func(rt *rapid.T) {
		p := genProg().Draw(rt, "program")
		p.Backend = rapid.SampledFrom([]string{"eng", "r1cs", "r1cs", "scs"}).Draw(rt, "backend")
		p.Mode = rapid.IntRange(0, 1).Draw(rt, "mode")
		if rapid.IntRange(0, 3).Draw(rt, "const") == 0 {
			p.CMask = uint64(rapid.IntRange(1, 1<<len(p.Inputs)-1).Draw(rt, "cmask"))
		}
		reuse := 0
		used := map[int]int{}
		for _, o := range p.Ops {
			for _, a := range o.Args {
				used[a]++
			}
		}
		for i, n := range used {
			if i >= len(p.Inputs) && n > 1 {
				reuse++
			}
		}
		pclass := "program/" + p.Backend
		if p.CMask != 0 {
			pclass += "/constant-inputs"
		}
		r.Case(pclass, reuse > 0, fmt.Sprint(p), func() any { return p })
		if k, d := runProg(p); k != "" {
			pp := p
			r.Fail(rt, "C07/"+k, c07Replay{Kind: "program", Prog: &pp}, "%s", d)
		}
	})
	r.Done()
}

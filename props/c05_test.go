package props

import (
	"fmt"
	"math/big"
	"os"
	"sort"
	"strings"
	"testing"

	"verif/cs"
	"verif/eng"
	"verif/gad"
	"verif/rec"
	"verif/ref"
	"verif/wv"

	"github.com/consensys/gnark/constraint/solver"
	"github.com/consensys/gnark/frontend"
	gl "github.com/wormhole-foundation/example-near-light-client/goldilocks"
	"github.com/wormhole-foundation/example-near-light-client/plonk/gates"
	"github.com/wormhole-foundation/example-near-light-client/poseidon"
	"pgregory.net/rapid"
)

// C05 Witnessed Goldilocks arithmetic is wrap-free and admits a single result.
//
// (A) isolated gadgets: every hint call of the gadget is a candidate for substitution by a
//     dishonest output; if the substituted tuple differs from the honest one the gadget must
//     REJECT (engine native, plain and forced-bit-decomposition (on a range-checking and on a committing API) flavours, and compiled R1CS/SCS with solver.OverrideHint).
// (B) every static hint site group of a whole-verifier execution: substitution must be rejected
//     by the constraints of the very gadget that requested the value ("locally"), not merely
//     because the honest proof's hashes stop matching downstream.
// (C) bound monitor: at every equality asserted by the Goldilocks chip both sides are < r for
//     all admissible operand values (so equality mod r is equality over the integers).

type c05Gadget struct {
	name string
	nIn  int
	gen  func(t *rapid.T) []*big.Int
	fn   gad.Fn
}

func genGLs(n int) func(t *rapid.T) []*big.Int {
	return func(t *rapid.T) []*big.Int {
		o := make([]*big.Int, n)
		for i := range o {
			o[i] = bu(genGL().Draw(t, "x"))
		}
		return o
	}
}

var c05Gadgets = []c05Gadget{
	{"MulAdd", 3, genGLs(3), func(api frontend.API, in []frontend.Variable) []frontend.Variable {
		return []frontend.Variable{gl.New(api).MulAdd(glv(in[0]), glv(in[1]), glv(in[2])).Limb}
	}},
	{"Reduce", 1, func(t *rapid.T) []*big.Int {
		return []*big.Int{genBigBelow(new(big.Int).Mul(pow2(144), bigP)).Draw(t, "x")}
	}, func(api frontend.API, in []frontend.Variable) []frontend.Variable {
		return []frontend.Variable{gl.New(api).Reduce(glv(in[0])).Limb}
	}},
	{"ReduceWithMaxBits(128)", 1, func(t *rapid.T) []*big.Int {
		return []*big.Int{genBigBelow(new(big.Int).Mul(pow2(128), bigP)).Draw(t, "x")}
	}, func(api frontend.API, in []frontend.Variable) []frontend.Variable {
		return []frontend.Variable{gl.New(api).ReduceWithMaxBits(glv(in[0]), 128).Limb}
	}},
	{"RangeCheck", 1, genGLs(1), func(api frontend.API, in []frontend.Variable) []frontend.Variable {
		gl.New(api).RangeCheck(glv(in[0]))
		return nil
	}},
	{"Inverse", 1, genGLs(1), func(api frontend.API, in []frontend.Variable) []frontend.Variable {
		inv, has := gl.New(api).Inverse(glv(in[0]))
		return []frontend.Variable{inv.Limb, has}
	}},
	{"MulExtension", 4, genGLs(4), func(api frontend.API, in []frontend.Variable) []frontend.Variable {
		r := gl.New(api).MulExtension(qev(in[0], in[1]), qev(in[2], in[3]))
		return []frontend.Variable{r[0].Limb, r[1].Limb}
	}},
	{"InverseExtension", 2, func(t *rapid.T) []*big.Int {
		x := genGLs(2)(t)
		if x[0].Sign() == 0 && x[1].Sign() == 0 {
			x[0].SetInt64(1)
		}
		return x
	}, func(api frontend.API, in []frontend.Variable) []frontend.Variable {
		r, has := gl.New(api).InverseExtension(qev(in[0], in[1]))
		return []frontend.Variable{r[0].Limb, r[1].Limb, has}
	}},
	{"Poseidon", 12, genGLs(12), func(api frontend.API, in []frontend.Variable) []frontend.Variable {
		var st poseidon.GoldilocksState
		for i := range st {
			st[i] = glv(in[i])
		}
		out := poseidon.NewGoldilocksChip(api).Poseidon(st)
		o := make([]frontend.Variable, 12)
		for i := range o {
			o[i] = out[i].Limb
		}
		return o
	}},
}

// genSubst draws a substitution strategy applicable to the hint kind.
func genSubst(kind eng.HintKind) *rapid.Generator[eng.Subst] {
	return rapid.Custom(func(t *rapid.T) eng.Subst {
		small := func() *big.Int { return big.NewInt(int64(rapid.IntRange(1, 8).Draw(t, "k"))) }
		switch kind {
		case eng.HintMulAdd, eng.HintReduce:
			switch rapid.IntRange(0, 4).Draw(t, "strategy") {
			case 0, 1:
				return eng.Subst{Strategy: "wrap", K: small()}
			case 2:
				k := small()
				if rapid.Bool().Draw(t, "negative") {
					k.Neg(k) // (q + j, rem - j*p): a remainder that is negative over the integers, r - (j*p - rem) in the field
				}
				return eng.Subst{Strategy: "shift", K: k}
			case 3:
				return eng.Subst{Strategy: "solve", Val: bu(genGL().Draw(t, "rem"))}
			default:
				return eng.Subst{Strategy: "set", Vals: []*big.Int{genBigBelow(pow2(70)).Draw(t, "q"), genBigBelow(pow2(65)).Draw(t, "r")}}
			}
		case eng.HintSplit:
			switch rapid.IntRange(0, 2).Draw(t, "strategy") {
			case 0:
				return eng.Subst{Strategy: "limbs", K: small(), Neg: rapid.Bool().Draw(t, "neg")}
			case 1:
				return eng.Subst{Strategy: "limbsolve", Val: genBigBelow(pow2(32)).Draw(t, "lo")}
			default:
				return eng.Subst{Strategy: "set", Vals: []*big.Int{genBigBelow(pow2(33)).Draw(t, "hi"), genBigBelow(pow2(33)).Draw(t, "lo")}}
			}
		case eng.HintInverse:
			switch rapid.IntRange(0, 2).Draw(t, "strategy") {
			case 0:
				k := small()
				if rapid.Bool().Draw(t, "negative") {
					k.Neg(k)
				}
				return eng.Subst{Strategy: "invp", K: k}
			case 1:
				return eng.Subst{Strategy: "set", Vals: []*big.Int{bu(genGL().Draw(t, "inv"))}}
			default:
				return eng.Subst{Strategy: "set", Vals: []*big.Int{new(big.Int)}}
			}
		}
		return eng.Subst{Strategy: "set", Vals: []*big.Int{genBigBelow(bigR).Draw(t, "v")}}
	})
}

// fixed strategy list used for the whole-verifier site sweep
func c05Strategies(kind eng.HintKind) []eng.Subst {
	switch kind {
	case eng.HintMulAdd, eng.HintReduce:
		return []eng.Subst{
			{Strategy: "wrap", K: big.NewInt(1)}, {Strategy: "wrap", K: big.NewInt(3)},
			{Strategy: "shift", K: big.NewInt(1)}, {Strategy: "shift", K: big.NewInt(-1)}, {Strategy: "solve", Val: big.NewInt(0)},
			{Strategy: "solve", Val: bu(ref.P - 1)}, {Strategy: "solve", Val: bu(0x123456789abcdef)},
		}
	case eng.HintSplit:
		return []eng.Subst{
			{Strategy: "limbs", K: big.NewInt(1)}, {Strategy: "limbs", K: big.NewInt(1), Neg: true},
			{Strategy: "limbsolve", Val: big.NewInt(0)}, {Strategy: "limbsolve", Val: bu(0xfffffffe)},
		}
	case eng.HintInverse:
		return []eng.Subst{
			{Strategy: "invp", K: big.NewInt(1)}, {Strategy: "invp", K: big.NewInt(-1)}, {Strategy: "set", Vals: []*big.Int{big.NewInt(0)}}, {Strategy: "set", Vals: []*big.Int{big.NewInt(1)}},
		}
	}
	return nil
}

type substJSON struct {
	Strategy string   `json:"strategy"`
	K        string   `json:"k,omitempty"`
	Neg      bool     `json:"neg,omitempty"`
	Val      string   `json:"val,omitempty"`
	Vals     []string `json:"vals,omitempty"`
}

func toSubstJSON(s eng.Subst) substJSON {
	j := substJSON{Strategy: s.Strategy, Neg: s.Neg}
	if s.K != nil {
		j.K = s.K.String()
	}
	if s.Val != nil {
		j.Val = s.Val.String()
	}
	j.Vals = strs(s.Vals)
	return j
}
func (j substJSON) subst() eng.Subst {
	s := eng.Subst{Strategy: j.Strategy, Neg: j.Neg, Vals: unstrs(j.Vals)}
	if j.K != "" {
		s.K = bs(j.K)
	}
	if j.Val != "" {
		s.Val = bs(j.Val)
	}
	return s
}

type c05Case struct {
	Part   string    `json:"part"` // "gadget" | "whole" | "compiled"
	Gadget string    `json:"gadget,omitempty"`
	Mode   int       `json:"mode"`
	Force  bool      `json:"force_bit_decomposition,omitempty"`
	In     []string  `json:"in,omitempty"`
	Base   string    `json:"base,omitempty"`
	K      int       `json:"k,omitempty"`
	Index  int       `json:"hint_index"`
	Subst  substJSON `json:"subst"`
	Kind   string    `json:"hint_kind,omitempty"`
	Group  string    `json:"site_group,omitempty"`
	Back   string    `json:"backend,omitempty"`
	Row    *c15Row   `json:"gate_row,omitempty"` // part "gate-monitor"
}

func c05FindGadget(name string) c05Gadget {
	for _, g := range c05Gadgets {
		if g.name == name {
			return g
		}
	}
	panic("unknown gadget " + name)
}

// isInverseOfZero recognises the documented don't-care: the value returned for Inverse(0).
func isInverseOfZero(inj eng.Injection) bool {
	return inj.Kind == eng.HintInverse && new(big.Int).Mod(inj.Inputs[0], bigP).Sign() == 0
}

// c05RunGadget: returns (violation, trivial, dontcare, desc)
func c05RunGadget(c c05Case) (bool, bool, bool, string, eng.Result) {
	g := c05FindGadget(c.Gadget)
	res, _ := gad.Run(eng.Options{Mode: eng.Mode(c.Mode), ForceBitDecomp: c.Force, Plan: eng.Plan{c.Index: c.Subst.subst()}}, unstrs(c.In), g.fn)
	if len(res.Injected) == 0 {
		return false, true, false, "", res
	}
	inj := res.Injected[0]
	if !inj.Differs {
		return false, true, false, "", res
	}
	if isInverseOfZero(inj) {
		return false, false, true, "", res
	}
	if res.Outcome == eng.Accept {
		return true, false, false, fmt.Sprintf("gadget %s%v (%s flavour): %s hint #%d (%s) honest outputs %v replaced by %v and ACCEPTED", c.Gadget, c.In, eng.Mode(c.Mode), inj.Kind, c.Index, inj.Caller, inj.Honest, inj.Subst), res
	}
	if eng.Mode(c.Mode) == eng.ModePlain || c.Force {
		// bit-decomposition flavours: the prover also controls gnark's own decomposition hint
		r2, _ := gad.Run(eng.Options{Mode: eng.Mode(c.Mode), ForceBitDecomp: c.Force, LumpBits: true, Plan: eng.Plan{c.Index: c.Subst.subst()}}, unstrs(c.In), g.fn)
		if r2.Outcome == eng.Accept {
			return true, false, false, fmt.Sprintf("gadget %s%v (%s flavour): %s hint #%d outputs %v replaced by %v is ACCEPTED when the bit-decomposition hint also answers dishonestly (digits = (value,0,..))", c.Gadget, c.In, eng.Mode(c.Mode), inj.Kind, c.Index, inj.Honest, inj.Subst), r2
		}
	}
	return false, false, false, "", res
}

// c05LocalDepth: a gadget's own constraints see a witnessed value through at most this many
// further MulAdd/Reduce/Inverse hints (Inverse asserts x*inv == 1 on a MulAdd result: depth 2).
const c05LocalDepth = 3

// c05RunWhole: substitution at a dynamic hint index of a whole-verifier run must be rejected locally.
func c05RunWhole(c c05Case) (bool, bool, bool, string, eng.Result) {
	rn := getRunner(c.Base, c.K)
	res := rn.run(nil, eng.Options{Mode: eng.Mode(c.Mode), Plan: eng.Plan{c.Index: c.Subst.subst()}})
	if len(res.Injected) == 0 {
		return false, true, false, "", res
	}
	inj := res.Injected[0]
	if !inj.Differs {
		return false, true, false, "", res
	}
	if isInverseOfZero(inj) {
		return false, false, true, "", res
	}
	// "locally" = the failing assertion has an operand derived from the substituted outputs by
	// arithmetic, bit decomposition, limb splitting or gnark's own hints only (no further
	// MulAdd/Reduce/Inverse hint in between); independent of function names and of where the
	// repository places or defers the assertions.
	local := res.Outcome == eng.Reject && res.RejectTainted && res.RejectDepth <= c05LocalDepth
	if os.Getenv("VERIF_C05_DEBUG") != "" {
		old := res.Outcome == eng.Reject && strings.Contains(res.Site, inj.Caller) && res.NHints-(c.Index+1) <= 8
		if old != local {
			fmt.Fprintf(os.Stderr, "C05DBG old=%v new=%v depth=%d kind=%s caller=%s site=%s strat=%s\n", old, local, res.RejectDepth, inj.Kind, inj.Caller, res.Site, c.Subst.Strategy)
		}
	}
	if local {
		return false, false, false, "", res
	}
	how := "the run was ACCEPTED"
	if res.Outcome != eng.Accept {
		how = fmt.Sprintf("the requesting gadget's own constraints were satisfied (%d further hints were served; the run only failed later at %s: %s)", res.NHints-(c.Index+1), res.Site, truncate(res.Msg, 60))
	}
	return true, false, false, fmt.Sprintf("%s: %s hint #%d requested by %s [%s]: honest outputs %v replaced by %v (%s) and %s", rn.in.Name(), inj.Kind, c.Index, inj.Caller, c.Group, inj.Honest, inj.Subst, c.Subst.Strategy, how), res
}

type c05Sys struct {
	sys *cs.System
	err error
}

var c05Systems = map[string]c05Sys{}

func c05Compiled(c c05Case) (bool, bool, bool, string) {
	g := c05FindGadget(c.Gadget)
	kind := cs.R1CS
	if c.Back == "scs" {
		kind = cs.SCS
	}
	key := c.Back + "/" + c.Gadget
	s, ok := c05Systems[key]
	if !ok {
		// built for a native-range-checker builder and for forced bit decomposition alternately
		s.sys, s.err = cs.Compile(kind, cs.MechNative, g.nIn, 0, func(api frontend.API, in []frontend.Variable) []frontend.Variable {
			g.fn(api, in)
			return nil
		})
		c05Systems[key] = s
	}
	if s.err != nil {
		return false, true, false, "compile: " + s.err.Error()
	}
	in := unstrs(c.In)
	// learn the honest outputs of the targeted hint on the engine (index 0 of that kind)
	tr := eng.NewTrace()
	tr.KeepIO = map[int]bool{c.Index: true}
	gad.Run(eng.Options{Mode: eng.ModeNative, Trace: tr}, in, g.fn)
	io, has := tr.IO[c.Index]
	if !has {
		return false, true, false, ""
	}
	var target solver.Hint
	var hk eng.HintKind
	switch tr.Recs[c.Index].Kind {
	case eng.HintMulAdd:
		target, hk = gl.MulAddHint, eng.HintMulAdd
	case eng.HintReduce:
		target, hk = gl.ReduceHint, eng.HintReduce
	case eng.HintSplit:
		target, hk = gl.SplitLimbsHint, eng.HintSplit
	case eng.HintInverse:
		target, hk = gl.InverseHint, eng.HintInverse
	default:
		return false, true, false, ""
	}
	// only meaningful when the targeted kind is called exactly once in the gadget
	n := 0
	for _, rc := range tr.Recs {
		if rc.Kind == hk {
			n++
		}
	}
	if n != 1 {
		return false, true, false, ""
	}
	sub := c.Subst.subst()
	want := eng.ApplySubst(sub, hk, io[0], io[1])
	differs := false
	for i := range want {
		if want[i].Cmp(io[1][i]) != 0 {
			differs = true
		}
	}
	if !differs {
		return false, true, false, ""
	}
	if hk == eng.HintInverse && new(big.Int).Mod(io[0][0], bigP).Sign() == 0 {
		return false, false, true, ""
	}
	override := func(q *big.Int, _ []*big.Int, out []*big.Int) error {
		for i := range out {
			out[i].Set(want[i])
		}
		return nil
	}
	err := s.sys.Solve(in, nil, solver.OverrideHint(solver.GetHintID(target), override))
	if err == nil {
		return true, false, false, fmt.Sprintf("compiled %s system of gadget %s%v solved with %s outputs %v instead of %v", c.Back, c.Gadget, c.In, hk, want, io[1])
	}
	return false, false, false, ""
}

func TestC05(t *testing.T) {
	r := rec.New("C05")
	defer r.Flush()
	r.Rule("(A) isolated gadgets {MulAdd, Reduce, ReduceWithMaxBits(128), RangeCheck, Inverse, MulExtension, InverseExtension, full Poseidon permutation} on rapid-generated operands (edge-heavy), one hint call chosen uniformly among the gadget's dynamic hint calls, replaced by a generated dishonest tuple: (X+k*r) div/mod p, (q-j, rem+j*p) for positive and negative j, field-solved quotient for a drawn remainder, shifted / field-solved limb pairs, inverse+k*p, arbitrary; engine native+plain and compiled R1CS/SCS via solver.OverrideHint.  (B) whole verifier (A1/k=1..2, B1/k=1): every static hint site group (hint kind + 3 innermost repo frames) x fixed strategy list x first/middle/last dynamic occurrence.  Oracle: a substituted tuple that differs from the honest one (mod r) must be REJECTed -- in (B) by the requesting gadget's own constraints (taint tracking: the failing assertion must have an operand derived from the substituted outputs through arithmetic, bit decomposition, limb splitting, gnark's own hints and at most 2 further MulAdd/Reduce/Inverse hints -- independent of function names and of where the assertion is placed or deferred).  (C) bound monitor over whole-verifier executions: at every equality asserted from package goldilocks both sides have an integer bound < r.  (D) the same monitor (plus the 'honest values fit the enforced quotient width' obligations) over single gate evaluators with rapid-generated gate parameters (all 14 gate types; honest, random and extreme rows; inputs range-checked first as in the verifier).  Trivial = substituted tuple equals the honest tuple; the value returned by Inverse(0) is a documented don't-care (counted, excluded).  Distinct = (site or gadget+operands, hint index, strategy).")
	r.Assume("engine native flavour has exact range-check semantics (C06)", "interval transfer functions of the bound monitor", "control flow of Define is data independent, so dynamic hint indices are stable across runs of one shape")

	var rp c05Case
	if is, err := rec.LoadReplay(&rp); is {
		if err != nil {
			r.Infra(t, "replay: %v", err)
		}
		var v bool
		var d string
		switch rp.Part {
		case "gadget":
			v, _, _, d, _ = c05RunGadget(rp)
		case "whole":
			v, _, _, d, _ = c05RunWhole(rp)
		case "compiled":
			v, _, _, d = c05Compiled(rp)
		case "monitor":
			viol, _ := c05Monitor(rp.Base, rp.K)
			v, d = len(viol) > 0, strings.Join(viol, "; ")
		case "gate-monitor":
			viol, _ := c05GateMonitor(*rp.Row)
			v, d = len(viol) > 0, strings.Join(viol, "; ")
		}
		r.Case("replay", true, fmt.Sprint(rp), func() any { return rp })
		if v {
			r.Fail(t, "C05/replay", rp, "%s", d)
		}
		r.Done()
		return
	}
	dontcare := 0

	// ---- (A) gadgets on the engine ----
	hintCounts := map[string]int{}
	for _, g := range c05Gadgets {
		in := make([]*big.Int, g.nIn)
		for i := range in {
			in[i] = big.NewInt(int64(i + 2))
		}
		res, _ := gad.Run(eng.Options{Mode: eng.ModeNative}, in, g.fn)
		hintCounts[g.name] = res.NHints
	}
	r.Extra("gadget_hint_calls", fmt.Sprint(hintCounts))
	// a gadget that requests no prover-supplied value (possible after a rewrite) offers nothing to substitute
	var withHints, withHints5 []c05Gadget
	for i, g := range c05Gadgets {
		if hintCounts[g.name] > 0 {
			withHints = append(withHints, g)
			if i < 5 {
				withHints5 = append(withHints5, g)
			}
		}
	}
	rapidCheck(t, "gadgets", tierN(14000, 150000), func(rt *rapid.T) {
		g := rapid.SampledFrom(withHints).Draw(rt, "gadget")
		in := g.gen(rt)
		idx := rapid.IntRange(0, hintCounts[g.name]-1).Draw(rt, "hint")
		// kind of that call is data independent: look it up on a traced run (cached per gadget)
		kind := c05KindAt(g, idx)
		sub := genSubst(kind).Draw(rt, "subst")
		m := genMode().Draw(rt, "mode")
		force := false
		if rapid.IntRange(0, 3).Draw(rt, "forced") == 0 {
			// the forcing environment variable on a range-checking or committing API
			m, force = rapid.SampledFrom([]eng.Mode{eng.ModeNative, eng.ModeCommit}).Draw(rt, "forced_mode"), true
		}
		c := c05Case{Part: "gadget", Gadget: g.name, Mode: int(m), Force: force, In: strs(in), Index: idx, Subst: toSubstJSON(sub), Kind: kind.String()}
		viol, trivial, dc, d, res := c05RunGadget(c)
		if dc {
			dontcare++
		}
		r.Case("gadget/"+g.name+"/"+kind.String(), !trivial && !dc, fmt.Sprint(c), func() any {
			return map[string]any{"case": c, "outcome": res.Outcome.String(), "rejected_at": res.Site}
		})
		if viol {
			r.Fail(rt, fmt.Sprintf("C05/gadget/%s/%s/%s", g.name, kind, sub.Strategy), c, "%s", d)
		}
	})

	// ---- (A') compiled systems ----
	if rec.ShardIdx() < 4 || rec.Thorough() {
		nComp := tierN(60, 1500)
		if rec.Thorough() {
			nComp = rec.Share(nComp) // every shard takes part in the thorough tier
		}
		rec.SetRapid("compiled", nComp)
		rapid.Check(t, func(rt *rapid.T) {
			g := rapid.SampledFrom(withHints5).Draw(rt, "gadget")
			back := rapid.SampledFrom([]string{"r1cs", "scs"}).Draw(rt, "backend")
			in := g.gen(rt)
			idx := 0 // the gadget's own hint is its first hint call
			kind := c05KindAt(g, idx)
			sub := genSubst(kind).Draw(rt, "subst")
			c := c05Case{Part: "compiled", Gadget: g.name, In: strs(in), Index: idx, Subst: toSubstJSON(sub), Kind: kind.String(), Back: back}
			viol, trivial, dc, d := c05Compiled(c)
			if dc {
				dontcare++
			}
			r.Case("compiled/"+back+"/"+g.name, !trivial && !dc, fmt.Sprint(c), func() any { return c })
			if viol {
				r.Fail(rt, fmt.Sprintf("C05/compiled/%s/%s/%s", back, g.name, sub.Strategy), c, "%s", d)
			}
		})
	}

	// ---- (B) whole-verifier static sites ----
	insts := [][2]any{{"A1", 1}}
	if rec.Thorough() {
		insts = [][2]any{{"A1", 2}, {"B1", 1}, {"A2", 1}}
	}
	item := 0
	for _, ik := range insts {
		base, k := ik[0].(string), ik[1].(int)
		rn := getRunner(base, k)
		tr := eng.NewTrace()
		res := rn.run(nil, eng.Options{Mode: eng.ModeNative, Trace: tr})
		if res.Outcome != eng.Accept {
			r.Infra(t, "traced honest run not accepted: %s", fmtRes(res))
		}
		groups := map[string][]*eng.SiteInfo{}
		for _, id := range tr.Order {
			s := tr.Sites[id]
			if s.Kind == eng.HintOther {
				continue
			}
			gk := s.Group(3)
			groups[gk] = append(groups[gk], s)
		}
		var gks []string
		for gk := range groups {
			gks = append(gks, gk)
		}
		sort.Strings(gks)
		r.Extra("whole:"+rn.in.Name(), fmt.Sprintf("%d hint calls, %d full call stacks, %d site groups", len(tr.Recs), len(tr.Sites), len(gks)))
		for _, gk := range gks {
			ss := groups[gk]
			var stacks []*eng.SiteInfo
			if rec.Thorough() {
				stacks = ss
			} else {
				stacks = []*eng.SiteInfo{ss[0]}
				if len(ss) > 1 {
					stacks = append(stacks, ss[len(ss)-1])
				}
			}
			for si, s := range stacks {
				occ := []int32{s.Dyn[0]}
				if len(s.Dyn) > 2 && (rec.Thorough() || si == 0) {
					occ = append(occ, s.Dyn[len(s.Dyn)/2], s.Dyn[len(s.Dyn)-1])
				}
				for oi, dyn := range occ {
					strategies := c05Strategies(s.Kind)
					for sj, sub := range strategies {
						if !rec.Thorough() && oi > 0 && sj != oi%len(strategies) {
							continue // non-first occurrences: one strategy each in the quick tier
						}
						item++
						if !rec.Mine(item) {
							continue
						}
						c := c05Case{Part: "whole", Mode: int(eng.ModeNative), Base: base, K: k, Index: int(dyn), Subst: toSubstJSON(sub), Kind: s.Kind.String(), Group: gk}
						viol, trivial, dc, d, res := c05RunWhole(c)
						if dc {
							dontcare++
						}
						r.Case("whole/"+s.Kind.String(), !trivial && !dc, fmt.Sprint(c), func() any {
							return map[string]any{"case": c, "outcome": res.Outcome.String(), "rejected_at": res.Site}
						})
						if viol {
							r.Fail(t, fmt.Sprintf("C05/whole/%s/%s", gk, sub.Strategy), c, "%s", d)
						}
					}
				}
			}
		}
	}

	// ---- (C) bound monitor ----
	monInsts := [][2]any{{"A1", 1}, {"B2", 1}}
	if rec.Thorough() {
		monInsts = [][2]any{{"A1", 28}, {"B1", 28}, {"A2", 3}, {"B2", 2}, {"B3", 1}}
	}
	for i, ik := range monInsts {
		if !rec.Mine(i + 5) {
			continue
		}
		base, k := ik[0].(string), ik[1].(int)
		viol, info := c05Monitor(base, k)
		r.Case("monitor/equality-obligations", true, fmt.Sprintf("monitor/%s/%d", base, k), func() any { return info })
		r.Extra(fmt.Sprintf("monitor:%s/k=%d", base, k), info)
		if len(viol) > 0 {
			r.Fail(t, "C05/monitor/"+strings.SplitN(viol[0], " ", 2)[0], c05Case{Part: "monitor", Base: base, K: k}, "%s", strings.Join(viol, "; "))
		}
	}
	// ---- (D) bound monitor over gate evaluators with generated parameters ----
	// The corpus circuits fix the gate parameters (BaseSum base 2, RandomAccess 4 bits, ...); the PLONK
	// part of the verifier evaluates whatever gates the circuit description names.
	gateObl := map[string]int{}
	rapidCheck(t, "gate-monitor", tierN(300, 2500), func(rt *rapid.T) {
		typ := rapid.SampledFrom(gateTypes).Draw(rt, "gate")
		if (typ == "Poseidon" || typ == "PoseidonMds") && rapid.IntRange(0, 3).Draw(rt, "thin") != 0 {
			typ = rapid.SampledFrom(gateTypes[4:]).Draw(rt, "gate2") // the Poseidon gates are ~50x more expensive
		}
		g := genGateSpec(typ).Draw(rt, "spec")
		row := c15Row{Gate: g, Mode: int(eng.ModeNative), Kind: "random"}
		if rapid.Bool().Draw(rt, "honest") {
			w, c, pi := honestRow(rt, g)
			for _, e := range w {
				row.Wires = append(row.Wires, e2(e))
			}
			for _, e := range c {
				row.Consts = append(row.Consts, e2(e))
			}
			row.PI, row.Kind = pi, "honest"
		} else {
			row.Wires, row.Consts, row.PI = genRowRandom(rt, gateRowWires, gateRowConsts)
			if rapid.IntRange(0, 2).Draw(rt, "extreme") == 0 {
				// all-(p-1) style rows maximise every intermediate value
				for i := range row.Wires {
					row.Wires[i] = [2]uint64{ref.P - 1 - uint64(i%2), ref.P - 1}
				}
				row.Kind = "extreme"
			}
		}
		viol, info := c05GateMonitor(row)
		for k, v := range info {
			gateObl[k] += v
		}
		r.Case("gate-monitor/"+typ+"/"+row.Kind, true, fmt.Sprint(row), func() any {
			return map[string]any{"gate": g.id(), "row": row.Kind, "obligations": info}
		})
		if len(viol) > 0 {
			rw := row
			r.Fail(rt, "C05/gate-monitor/"+typ+"/"+strings.SplitN(viol[0], " ", 2)[0], c05Case{Part: "gate-monitor", Row: &rw}, "%s: %s", g.id(), strings.Join(viol, "; "))
		}
	})
	r.Extra("gate_monitor_obligation_instances", gateObl)
	r.AddExtra("dont_care_inverse_of_zero_excluded", dontcare)
	r.Done()
}

// c05GateMonitor evaluates one gate's constraints on range-checked inputs under the bound monitor:
// every equality asserted by the Goldilocks chip must have both sides < r over the integers
// ("equality"), and the largest value an honest prover can have to reduce must fit the quotient
// width the circuit enforces ("fit").
func c05GateMonitor(a c15Row) (viol []string, info map[string]int) {
	id := a.Gate.id()
	nw, nc := len(a.Wires), len(a.Consts)
	fn := func(api frontend.API, v []frontend.Variable) []frontend.Variable {
		c := gl.New(api)
		for _, x := range v {
			c.RangeCheck(glv(x)) // openings are range-checked before they reach the gates
		}
		g := gates.GateInstanceFromId(id)
		w, cs, h := readRow(v, nw, nc)
		vars := gates.NewEvaluationVars(cs, w, h)
		return flatQE(g.EvalUnfiltered(api, c, *vars))
	}
	mon := eng.NewMonitor()
	res, _ := gad.Run(eng.Options{Mode: eng.ModeNative, Mon: mon}, rowInputs(a.Wires, a.Consts, a.PI), fn)
	info = map[string]int{}
	if res.Outcome != eng.Accept {
		return []string{"not-accepted: honest evaluation of the gate constraints: " + fmtRes(res)}, info
	}
	if res.TolerantHints > 0 {
		return []string{"shipped-hint-failed on an honest gate evaluation"}, info
	}
	mon.Finish()
	for _, o := range mon.Sorted() {
		info[o.Kind] += o.Count
		if o.Viol == 0 {
			continue
		}
		if o.Kind == "equality" {
			viol = append(viol, fmt.Sprintf("%s: equality can wrap around r (lhs bound 2^%d, rhs bound 2^%d, %d instances)", o.Site, o.MaxL.BitLen(), o.MaxR.BitLen(), o.Viol))
		} else {
			viol = append(viol, fmt.Sprintf("%s: an honest value of up to 2^%d must be reduced but the enforced %d-bit quotient only covers 2^%d (%d instances)", o.Site, o.MaxL.BitLen(), o.Width, o.Limit.BitLen(), o.Viol))
		}
	}
	return viol, info
}

var c05KindCache = map[string][]eng.HintKind{}

func c05KindAt(g c05Gadget, idx int) eng.HintKind {
	ks, ok := c05KindCache[g.name]
	if !ok {
		in := make([]*big.Int, g.nIn)
		for i := range in {
			in[i] = big.NewInt(int64(i + 2))
		}
		tr := eng.NewTrace()
		gad.Run(eng.Options{Mode: eng.ModeNative, Trace: tr}, in, g.fn)
		for _, rc := range tr.Recs {
			ks = append(ks, rc.Kind)
		}
		c05KindCache[g.name] = ks
	}
	return ks[idx]
}

// c05Monitor runs the whole verifier under the bound monitor and returns violated soundness
// obligations of the Goldilocks chip.
func c05Monitor(base string, k int) (viol []string, info map[string]any) {
	in := wv.Load(base, k)
	mon := eng.NewMonitor()
	res := eng.Run(in.Circuit(), in.Circuit(), eng.Options{Mode: eng.ModeNative, Mon: mon})
	if res.Outcome != eng.Accept {
		return []string{"monitored honest run not accepted: " + fmtRes(res)}, nil
	}
	mon.Finish()
	groups, dyn := 0, 0
	maxBits := 0
	var samples []map[string]any
	for _, o := range mon.Sorted() {
		if o.Kind != "equality" {
			continue
		}
		groups++
		dyn += o.Count
		b := o.MaxL.BitLen()
		if o.MaxR.BitLen() > b {
			b = o.MaxR.BitLen()
		}
		if o.Viol == 0 && b > maxBits {
			maxBits = b
		}
		if len(samples) < 3 {
			samples = append(samples, map[string]any{"site": o.Site, "instances": o.Count, "lhs_bound_bits": o.MaxL.BitLen(), "rhs_bound_bits": o.MaxR.BitLen()})
		}
		if o.Viol > 0 {
			viol = append(viol, fmt.Sprintf("%s: equality can wrap around r (lhs bound 2^%d, rhs bound 2^%d, %d instances)", o.Site, o.MaxL.BitLen(), o.MaxR.BitLen(), o.Viol))
		}
	}
	info = map[string]any{"instance": in.Name(), "equality_site_groups": groups, "equality_instances": dyn, "largest_bound_bits_among_holding": maxBits, "samples": samples}
	return viol, info
}

#!/bin/bash
# usage: tools/trymutant.sh <patch.diff> <property id>...   -- applies the patch to /repo, runs the quick checks, reverts.
set -u
patch=$1; shift
cd /repo || exit 2
if [ -n "$(git status --porcelain)" ]; then echo "/repo not clean"; exit 2; fi
git apply "$patch" || { echo "patch does not apply"; exit 2; }
trap 'git -C /repo checkout -- . ; git -C /repo status --porcelain' EXIT
cd /verif
for id in "$@"; do
  out=$(VERIF_TIER=${TIER:-quick} ./check "$id" --tier ${TIER:-quick} 2>&1)
  rc=$?
  echo "== $id rc=$rc"; echo "$out" | grep -E "VIOLATION|INCONCLUSIVE|BUILD FAILED|evals=" | head -6
  echo "$out" | grep -A1 "^VIOLATION" | grep -v "^VIOLATION" | head -2 | cut -c1-400
done

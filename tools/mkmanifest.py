#!/usr/bin/env python3
"""Regenerates /verif/MANIFEST.json from the table below (keeps it valid at all times)."""
import json, os, subprocess
ROOT = os.path.dirname(os.path.dirname(os.path.abspath(__file__)))
ALL = ["C%02d" % i for i in range(1, 21)]

# id -> (technique, level text, level note, design ref)
CHECKS = {
 "C01": ("property-based testing: stratified generated perturbation of accepted instances (rapid) + reference-labelled description edits; exhaustive position sweep in thorough",
         "Every kind of leaf of real accepted proofs (and of their query-round-prefix restrictions) is perturbed in five ways per stratum (leaf kind x round bucket x list position), the other inner circuit's key is substituted, and ~390 single-constant edits of the circuit description are labelled by the independent reference verifier; the whole VerifierCircuit is evaluated on the adversarial engine and must never ACCEPT. Detects unbound data (missing Merkle/transcript/round checks, ignored constants); weakened algebraic identities are the business of C11-C16 (Fiat-Shamir re-randomises honest-proof perturbations).",
         "Trusts the reference verifier for labelling description edits and the engine's API semantics; candidates for a wrong ACCEPT are re-run under bit decomposition before being reported.",
         "DESIGN.md section 4 (C01)"),
 "C02": ("generated configuration sweep (proof x prefix x range-check flavour x wrapper) with differential cross-check against gnark's engine and an interval-bound invariant monitor",
         "All five real proofs, their k-round prefixes, three range-check flavours (plus the forcing env var), both wrappers and gnark's own test engine must ACCEPT; a bound monitor checks over one execution per inner circuit that at all ~190k witnessed reductions the largest honest operand fits the enforced quotient width. Also: the whole circuit compiled with gnark's R1CS/SCS builders (commit checker) and solved through the hint registry; 40 circuits built in one process without emptying the chip cache; the same proofs against their description with a lower proof-of-work difficulty; zero-query-round instances whose proof document carries arbitrary pow_witness values (0, 2^63, p-1, ...).",
         "Completeness for all valid proofs is limited to 5 real proofs and their 140 prefixes (no plonky2 prover offline). Monitor transfer functions are part of the trusted base.",
         "DESIGN.md section 4 (C02)"),
 "C03": ("property-based testing (rapid) of the wrapper with generated limb/value assignments against an integer oracle, plus interval-bound invariant on the packing equality",
         "Generated limb vectors (true limbs, limb+k*p, arbitrary, oversized) and public values (packing of supplied limbs, of true limbs, random, +2^128) are evaluated on CircuitFixed built through the repository's compile-path constructor; ACCEPT iff limbs and values are exactly the true ones. A monitored run requires the packing equalities to be wrap-free and < 2^128 for all admissible limb values.",
         "Solidity truncation is read, not executed. Only circuit-A instances have 16 public inputs.",
         "DESIGN.md section 4 (C03)"),
 "C04": ("property-based testing (rapid + enumeration of every unselected cap entry) of wrappers built through the repository's compile-path constructors",
         "Wrappers are built by the very constructors cmd/compile.go and CompileVerifierCircuit use (exported under the verif tag), then evaluated with proving-time keys that differ in one element (+1/random/zero; every cap entry no query selects, found with the reference verifier), are the other circuit's key or random; ACCEPT iff the key equals the template's; controls require the right key and other proofs of the same circuit to be accepted.",
         "Trusts ref for the selected-slot computation; engine API semantics.",
         "DESIGN.md section 4 (C04)"),
 "C05": ("fault injection by property-based testing: generated dishonest hint outputs at every static prover-supplied-value site (rapid), differential with compiled R1CS/SCS via solver.OverrideHint, plus an interval-bound invariant monitor over whole executions",
         "Every hint call of eight isolated gadgets (incl. a full Poseidon permutation, 1650 calls) and the first/middle/last occurrence of each of the 62 static hint-site groups of a whole-verifier execution is replaced by generated dishonest tuples (field-wrap, shifted, field-solved, limb-shifted, inverse+p, arbitrary); any tuple differing from the honest one must be rejected by the requesting gadget's own constraints. A bound monitor checks over ~415k chip equalities that both sides stay below r for every admissible operand value. Locality is decided by taint depth in the engine, not by function names.  The bound monitor (wrap-freeness of every equality and honest-values-fit) also runs over single gate evaluators with generated parameters.",
         "Monitor transfer functions and engine semantics are trusted; Inverse(0) output is a documented don't-care; evidence, not proof.",
         "DESIGN.md section 4 (C05)"),
 "C06": ("property-based testing (rapid) with an integer oracle, differential across evaluation-engine flavours, gnark's test engine and compiled R1CS/SCS systems, with dishonest limb hints",
         "Boundary-heavy generated values x {RangeCheck, RangeCheckWithMaxBits(n)} x {native / commit / bit decomposition / forced} on the engine, on gnark's own engine and on compiled R1CS and SCS systems (commit mode padded to the 16-bit regime); accepted iff in range, also when the limb hint is replaced by dishonest outputs. Also: gnark's own bit-decomposition hint answered dishonestly, DivUnchecked(0,0) wires chosen by the prover, field fractions y/2^k as values, and 'populations' - one check inside circuits of stratified sizes and at the transition/tie sizes of gnark's limb-width optimiser, compiled for R1CS and SCS under the commit checker (what compiles must be exact).",
         "gnark v0.9.1 solver and std/rangecheck trusted as shipped; native-range-checker builder is a thin wrapper doing bit decomposition.",
         "DESIGN.md section 4 (C06)"),
 "C17": ("exhaustive enumeration of leaf positions x generated offsets against a must-not-accept oracle",
         "Every Goldilocks-valued leaf of the proof is replaced by value + k*p (k in {1,2,2^64,kmax}); the whole verifier must not ACCEPT. Quick enumerates all 10.9k positions of one proof (k=1) plus strided samples of the others; thorough enumerates all positions x 4 offsets x 5 proofs (exhaustive over positions). Also: the verifier's canonical-form stage alone on generated, edge-heavy residues (canonical accepted, residue+m*p rejected, also with prover-chosen DivUnchecked(0,0) wires), one position per leaf kind on the circuit compiled to R1CS with the commit checker, and the proofs checked against a description without grinding.",
         "Native engine flavour has exact range semantics (C06); candidates are re-checked under bit decomposition.",
         "DESIGN.md section 4 (C17)"),
 "C07": ("property-based testing (rapid) with a native reference model; exhaustive edge-triple enumeration",
         "Generated operand triples (all 343 edge combinations + thousands of random ones) are pushed through every base-field gadget on an adversarial evaluation engine under two range-check flavours and compared with independent uint64 Goldilocks arithmetic; reduce inputs are drawn on both sides of the 2^b*p limit. Straight-line programs of 2..12 gadget calls run on the engine and compiled to R1CS/SCS; a fraction of all cases supplies operands as circuit constants. Exploration, not proof: it shows agreement on everything generated.",
         "Trusts the engine's frontend.API semantics (cross-validated against gnark's test engine and compiled R1CS/SCS in C06) and ref's 60-line field arithmetic (validated by real-proof acceptance).",
         "DESIGN.md section 4 (C07)"),
 "C08": ("property-based testing (rapid) against a reference GF(p^2)/algebra model, with metamorphic field laws",
         "Edge-heavy operand tuples through every extension-field and algebra gadget (27 operations incl. exponentiation up to 64-bit exponents, power-reduction and inner products up to 300 terms, partial barycentric interpolation) compared with 30 lines of reference arithmetic; inverse/division of zero must be rejected; a*a^-1=1, (a/b)*b=a, a^(m+n)=a^m*a^n evaluated in circuit.",
         "Reference arithmetic is trusted (validated by real-proof acceptance).", "DESIGN.md section 4 (C08)"),
 "C09": ("property-based testing (rapid) against a naive reference Poseidon; fault injection at every hint call for functionality",
         "Generated states and input sequences (canonical and value+k*p) through the permutation, HashNoPad, HashNToMNoPad and the extension-layer helpers compared with the naive 30-round reference (the circuit uses the optimised schedule); all 1650 hint calls of a permutation are substituted by dishonest tuples and must be rejected (no second output). Extreme and round-constant-cancelling states; hashes of several prefixes of one vector in one circuit; constant operands; second evaluation in one circuit.",
         "Reference validated by plonky2's published zero-vector and by real-proof acceptance.", "DESIGN.md section 4 (C09)"),
 "C10": ("property-based testing (rapid) against a reference PoseidonBN128; two-input injectivity properties; solver hint override on compiled R1CS/SCS",
         "Permutation, sponge, shortcut, two-to-one and hash-to-field conversion compared with the reference on edge/random inputs across the length boundaries; injectivity of the <=3-element packing and of the 56-bit chunking checked as two-input properties in circuit; on compiled systems a dishonest bit decomposition of hash+r is rejected. Hashes of several prefixes of one vector in one circuit.",
         "BN254 reference shares the optimised iden3 schedule with frozen constants (independence rests on KAT + real Merkle paths).", "DESIGN.md section 4 (C10)"),
 "C11": ("model-based (stateful) property testing of the challenger against a reference duplex sponge; differential transcripts; metamorphic sensitivity",
         "Histories of up to 200 observe/squeeze operations are executed in circuit and compared squeeze by squeeze with the reference challenger; GetChallenges on the 5 real proofs and on same-shape random transcripts equals the reference transcript; changing one observed value changes all later and no earlier challenges. Transcripts are derived 1-3 times on one chip and under configuration variants (proof-of-work bits, query rounds, number of public inputs).",
         "Reference transcript reproduces the challenge constants hard-coded in tests/fri_test.go.", "DESIGN.md section 4 (C11)"),
 "C12": ("property-based testing (rapid) with backwards-constructed Merkle trees and generated single-element corruptions against a reference recomputation",
         "Random trees (height 4..12, leaf width 1..140) with one corruption drawn from nine kinds, plus the real openings of the corpus; accept iff the reference recomputation equals the selected cap entry (unselected-entry changes must still accept). Also non-boolean single bits and a forged pair (uncommitted leaf + crafted sibling + non-boolean 'bit'), on the engine and on the gadget compiled to R1CS and SCS.",
         "Reference PoseidonBN128 (C10).", "DESIGN.md section 4 (C12)"),
 "C13": ("property-based testing (rapid) of FRI sub-gadgets and of whole query rounds constructed backwards with a reference, with generated single-ingredient mutations",
         "Sub-gadget outputs equal the reference on random inputs (degenerate points expect REJECT); query rounds with 1..3 folds are constructed backwards, Merkle-sealed, then one ingredient is changed with re-sealing so that only the algebra can reject; accept iff the reference round check passes; all real rounds too.",
         "Reference FRI accepts the 140 real rounds.", "DESIGN.md section 4 (C13)"),
 "C14": ("property-based testing (rapid) with an integer oracle over response x difficulty x flavour; natively ground witnesses substituted into real transcripts",
         "assertLeadingZeros accepts iff response < 2^(64-b) for b in 1..63 (and 16/32/48 under the commit flavour); VerifyFriProof with only the response replaced; PoW witnesses (random and ground) substituted into real transcripts with the response recomputed in circuit. The check is also compiled for R1CS/SCS under the commit checker inside circuits of stratified sizes (what compiles must be exact).",
         "Reference transcript (C11).", "DESIGN.md section 4 (C14)"),
 "C15": ("property-based testing (rapid) over a gate-identifier grammar: differential against reference gate polynomials plus a semantic honest-row oracle",
         "For all 14 gate types and generated parameters the constraint vector equals the reference element-wise on random GF(p^2) rows; rows produced by semantic witness generators (run the computation, record witnesses) zero every constraint; filtered sums over random selector layouts equal the reference position-wise.",
         "Reference gates validated by real proofs (13 of 14 types) and by the honest-row oracle.", "DESIGN.md section 4 (C15)"),
 "C16": ("property-based testing (rapid): opening sets with reference-solved quotients (accept side) and generated single-coordinate perturbations (reject side) on real and synthetic descriptions",
         "Quotient chunk 0 is solved so that the identity holds, then one opening/challenge coordinate is perturbed; PlonkChip.Verify must agree with the reference on real descriptions and on random synthetic ones (1..3 rounds, up to 80 routed wires, random gate sets); evalVanishingPoly compared value by value. Synthetic descriptions reach the circuit as plonky2-style JSON through the repository's reader; a fifth of the cases evaluates 2-3 times on one chip.",
         "Reference vanishing polynomial (accepts real proofs).", "DESIGN.md section 4 (C16)"),
 "C18": ("grammar-based property testing (rapid) with repeated resolution to sweep map iteration order",
         "Identifiers generated from plonky2 Debug formats: supported ones resolve 200 times to deeply-equal gates whose Id() states exactly the given parameters and whose behaviour equals the reference gate; unsupported gates and D != 2 variants are refused on all 200 resolutions; hiding-enabled common data is refused.",
         "Formats of unsupported gates are written from memory of the plonky2 sources.", "DESIGN.md section 4 (C18)"),
 "C19": ("model-based document generation (rapid): round-trip of every number by name and position, one-value differential, generated corruptions from the listed classes",
         "Random-shape documents are read by the repository's readers and every leaf (name and value, schema order) is compared with the model; one edited value changes exactly that leaf; listed malformed values are refused at read, deserialise or witness time; common-data documents arrive field by field. Histories: 2-4 documents read before any is deserialised, then deserialised in a drawn order.",
         "Signed decimal strings and JSON null are outside the listed classes (accepted today; not generated).", "DESIGN.md section 4 (C19)"),
 "C20": ("generated shape mutation of accepted instances (reflect-enumerated list kinds x 5 operations) and reference-labelled configuration edits against a never-accept oracle",
         "Every list kind of the proof structure (30 kinds; first/middle/last round) is altered by drop-first/drop-last/duplicate-last/append-zero/empty in template and assignment alike, and FRI configuration constants are edited coherently against the unchanged proof; the whole verifier must REFUSE or REJECT, never ACCEPT.",
         "Single-copy edits of configuration fields the verifier reads from one copy, and proof-of-work bits, are not shape changes and are not generated.",
         "DESIGN.md section 4 (C20)"),
}
NOT_YET = "check not built yet in this session (planned in DESIGN.md section 4); will be claimed once its check runs green on the unchanged tree"

def main():
    hooks = subprocess.run(["git", "-C", "/repo", "log", "--format=%H %s"], capture_output=True, text=True).stdout.splitlines()
    hook_commits = [l.split()[0] for l in hooks if "verif hook" in l]
    m = {
        "version": 1,
        "setup_cmd": "cd /verif && export GOFLAGS=-mod=mod GOPROXY=off GOSUMDB=off GOTOOLCHAIN=local && go test -c -tags verif -o bin/props.test ./props && go test -tags verif -count=1 ./ref && go test -tags verif -count=1 -run 'TestEngineAgreesWithGnark|TestMonitorBoundsDominateBruteForce' ./eng -rapid.checks=3000 -rapid.nofailfile",
        "hooks": {
            "guard": "verif",
            "enable": "go build tag: every check builds /repo/gnark-plonky2-verifier with `-tags verif` (files *_verif.go guarded by //go:build verif)",
            "baseline_off_cmd": "cd /repo/gnark-plonky2-verifier && GOFLAGS=-mod=mod GOPROXY=off GOSUMDB=off go test -json -vet=off -count=1 -timeout 25m ./...",
            "source_commits": hook_commits,
            "add_only": True,
        },
        "engines": [
            {"name": "eng", "path": "/verif/eng", "serves_properties": ALL, "kind_free_text": "adversarial evaluation engine for gnark circuits (frontend.API over fr.Element) with hint substitution, three range-check flavours and an integer-bound monitor"},
            {"name": "ref", "path": "/verif/ref", "serves_properties": ALL, "kind_free_text": "independent native plonky2 (PoseidonBN128 config) verifier used as reference model"},
        ],
        "checks": [],
        "not_applicable": [],
        "notes": "All checks are property-based tests / fuzzing (pgregory.net/rapid v1.3.0, native go fuzzing in thorough tiers) against explicit oracles; driver: /verif/check <ID> [--tier quick|thorough] [--replay FILE]. Known findings: /verif/KNOWN_FINDINGS.txt.",
    }
    for pid in ALL:
        if pid in CHECKS:
            tech, text, note, ref = CHECKS[pid]
            m["checks"].append({
                "property_id": pid,
                "quick_cmd": "./check %s --tier quick" % pid,
                "thorough_cmd": "./check %s --tier thorough" % pid,
                "evidence_file": "/verif/evidence/%s.json" % pid,
                "replay_cmd_template": "./check %s --replay {path}" % pid,
                "engine": "eng",
                "level_claimed": {"category": "exploration", "text": text, "design_ref": ref},
                "level_note": note,
                "technique": tech,
            })
        else:
            m["not_applicable"].append({"property_id": pid, "reason": NOT_YET})
    json.dump(m, open(os.path.join(ROOT, "MANIFEST.json"), "w"), indent=1)
    try:
        import jsonschema
        jsonschema.validate(m, json.load(open("/root/.vp/MANIFEST.schema.json")))
        print("MANIFEST valid;", len(m["checks"]), "checks,", len(m["not_applicable"]), "not claimed")
    except ImportError:
        print("written (jsonschema not available to validate)")

main()

#!/usr/bin/env python3
"""Regenerates /verif/MANIFEST.json from the table below (keeps it valid at all times)."""
import json, os, subprocess
ROOT = os.path.dirname(os.path.dirname(os.path.abspath(__file__)))
ALL = ["C%02d" % i for i in range(1, 21)]

# id -> (technique, level text, level note, design ref)
CHECKS = {
 "C07": ("property-based testing (rapid) with a native reference model; exhaustive edge-triple enumeration",
         "Generated operand triples (all 343 edge combinations + thousands of random ones) are pushed through every base-field gadget on an adversarial evaluation engine under two range-check flavours and compared with independent uint64 Goldilocks arithmetic; reduce inputs are drawn on both sides of the 2^b*p limit. Exploration, not proof: it shows agreement on everything generated.",
         "Trusts the engine's frontend.API semantics (cross-validated against gnark's test engine and compiled R1CS/SCS in C06) and ref's 60-line field arithmetic (validated by real-proof acceptance).",
         "DESIGN.md section 4 (C07)"),
}
NOT_YET = "check not built yet in this session (planned in DESIGN.md section 4); will be claimed once its check runs green on the unchanged tree"

def main():
    hooks = subprocess.run(["git", "-C", "/repo", "log", "--format=%H %s"], capture_output=True, text=True).stdout.splitlines()
    hook_commits = [l.split()[0] for l in hooks if "verif hook" in l]
    m = {
        "version": 1,
        "setup_cmd": "cd /verif && GOFLAGS=-mod=mod GOPROXY=off GOSUMDB=off GOTOOLCHAIN=local go test -c -tags verif -o bin/props.test ./props && GOFLAGS=-mod=mod GOPROXY=off GOSUMDB=off GOTOOLCHAIN=local go test -tags verif -count=1 ./ref",
        "hooks": {
            "guard": "verif",
            "enable": "go build tag: every check builds /repo/gnark-plonky2-verifier with `-tags verif` (files *_verif.go guarded by //go:build verif)",
            "baseline_off_cmd": "cd /repo/gnark-plonky2-verifier && GOFLAGS=-mod=mod GOPROXY=off GOSUMDB=off go test -json -vet=off -count=1 -timeout 25m ./...",
            "source_commits": hook_commits,
            "add_only": True,
        },
        "engines": [
            {"name": "eng", "path": "/verif/eng", "serves_properties": ALL, "kind_free_text": "adversarial evaluation engine for gnark circuits (frontend.API over fr.Element) with hint substitution, three range-check flavours and an integer-bound monitor"},
            {"name": "ref", "path": "/verif/ref", "serves_properties": ALL, "kind_free_text": "independent native plonky2 (PoseidonBN128 config) verifier used as reference model"},
        ],
        "checks": [],
        "not_applicable": [],
        "notes": "All checks are property-based tests / fuzzing (pgregory.net/rapid v1.3.0, native go fuzzing in thorough tiers) against explicit oracles; driver: /verif/check <ID> [--tier quick|thorough] [--replay FILE]. Known findings: /verif/KNOWN_FINDINGS.txt.",
    }
    for pid in ALL:
        if pid in CHECKS:
            tech, text, note, ref = CHECKS[pid]
            m["checks"].append({
                "property_id": pid,
                "quick_cmd": "./check %s --tier quick" % pid,
                "thorough_cmd": "./check %s --tier thorough" % pid,
                "evidence_file": "/verif/evidence/%s.json" % pid,
                "replay_cmd_template": "./check %s --replay {path}" % pid,
                "engine": "eng",
                "level_claimed": {"category": "exploration", "text": text, "design_ref": ref},
                "level_note": note,
                "technique": tech,
            })
        else:
            m["not_applicable"].append({"property_id": pid, "reason": NOT_YET})
    json.dump(m, open(os.path.join(ROOT, "MANIFEST.json"), "w"), indent=1)
    try:
        import jsonschema
        jsonschema.validate(m, json.load(open("/root/.vp/MANIFEST.schema.json")))
        print("MANIFEST valid;", len(m["checks"]), "checks,", len(m["not_applicable"]), "not claimed")
    except ImportError:
        print("written (jsonschema not available to validate)")

main()

#!/usr/bin/env python3
"""Prints a per-property summary table from /verif/evidence/*.json (for DESIGN.md)."""
import json, glob, os
rows = []
for f in sorted(glob.glob("/verif/evidence/C*.json")):
    e = json.load(open(f)); c = e["coverage"]
    top = sorted(((v, k) for k, v in c.get("classes", {}).items() if k != "(trivial)"), reverse=True)[:3]
    rows.append("| %s | %s | %d | %d | %d | %.0f | %s |" % (e["property_id"], e["tier"], c["evaluations"], c["distinct_nontrivial"], len(c.get("classes", {})), e["wall_s"], "; ".join("%s (%d)" % (k, v) for v, k in top)))
print("| property | tier | evaluations | distinct non-trivial | classes | wall s | largest classes |\n|---|---|---|---|---|---|---|")
print("\n".join(rows))

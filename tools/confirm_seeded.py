#!/usr/bin/env python3
"""Confirm a seeded change produced by a sub-agent in a fresh scratch worktree:
   builds, demo passes without / fails with the change, existing suite (30 stable tests) passes with it.
   usage: confirm_seeded.py <agent worktree> <SEEDED dir name> <name to store under /verif/seeded>"""
import json, os, shutil, subprocess, sys, glob
agent, sub, name = sys.argv[1], sys.argv[2], sys.argv[3]
ENV = dict(os.environ, GOFLAGS="-mod=mod", GOPROXY="off", GOSUMDB="off", GOTOOLCHAIN="local")
sd = os.path.join(agent, sub)
meta = json.load(open(os.path.join(sd, "meta.json")))
wt = "/tmp/mutconf/" + name
subprocess.run(["git", "-C", "/repo", "worktree", "remove", "--force", wt], capture_output=True)
shutil.rmtree(wt, ignore_errors=True)
os.makedirs("/tmp/mutconf", exist_ok=True)
subprocess.run(["git", "-C", "/repo", "worktree", "add", "-q", "--detach", wt, "HEAD"], check=True)
log = []
def run(cmd, cwd=None, timeout=1800):
    p = subprocess.run(cmd, shell=True, cwd=cwd, env=ENV, capture_output=True, text=True, timeout=timeout)
    return p.returncode, (p.stdout + p.stderr)
try:
    # demo test files: the copies delivered in the SEEDED dir, placed by their package clause
    PKGDIR = {"tests": "tests", "fri": "fri", "plonk": "plonk", "gates": "plonk/gates", "goldilocks": "goldilocks", "poseidon": "poseidon",
              "challenger": "challenger", "verifier": "verifier", "types": "types", "variables": "variables", "cmd": "cmd", "seeded_demo": "seeded_demo"}
    demos = []
    for f in sorted(glob.glob(os.path.join(sd, "*_test.go"))):
        pkg = "tests"
        for line in open(f):
            if line.startswith("package "):
                pkg = line.split()[1].replace("_test", "")
                break
        rel = os.path.join("gnark-plonky2-verifier", PKGDIR.get(pkg, "tests"), os.path.basename(f))
        os.makedirs(os.path.dirname(os.path.join(wt, rel)), exist_ok=True)
        shutil.copy(f, os.path.join(wt, rel))
        demos.append(rel)
    agent_demo_src = {d: os.path.join(sd, os.path.basename(d)) for d in demos}
    demo_cmd = meta["demo_cmd"].replace(agent, wt)
    # keep only the `go test` invocation (some commands also apply patches / copy files first)
    parts = [p.strip() for p in demo_cmd.replace(";", "&&").split("&&")]
    gotest = [p.split(" (")[0].split("#")[0].strip().rstrip(")").strip() for p in parts if "go test" in p]
    gotest = [g[g.index("go test"):] for g in gotest]
    demo_cmd = "cd %s/gnark-plonky2-verifier && GOFLAGS=-mod=mod GOPROXY=off GOSUMDB=off %s" % (wt, gotest[-1]) if gotest else demo_cmd
    rc0, out0 = run(demo_cmd, cwd=wt)
    log.append("demo without change: rc=%d" % rc0)
    rc, out = run("git apply %s" % os.path.join(sd, "patch.diff"), cwd=wt)
    if rc != 0:
        log.append("PATCH DOES NOT APPLY: " + out[-300:]); raise SystemExit
    rcb, outb = run("go build ./... && go build -tags verif ./...", cwd=os.path.join(wt, "gnark-plonky2-verifier"))
    log.append("build with change: rc=%d" % rcb)
    rc1, out1 = run(demo_cmd, cwd=wt)
    log.append("demo with change: rc=%d" % rc1)
    # existing suite with the change, demo moved aside
    for d in demos:
        os.remove(os.path.join(wt, d))
    rcs, outs = run("go test -json -vet=off -count=1 -timeout 25m ./...", cwd=os.path.join(wt, "gnark-plonky2-verifier"))
    res = {}
    for l in outs.splitlines():
        try:
            d = json.loads(l)
        except Exception:
            continue
        if d.get("Action") in ("pass", "fail") and d.get("Test"):
            res[d["Package"] + "::" + d["Test"]] = d["Action"]
    base = json.load(open("/root/.vp/BASELINE.json"))["stable_pass"]
    missing = [b for b in base if res.get(b) != "pass"]
    log.append("existing suite with change: %d/%d stable tests pass; not passing: %s" % (len(base) - len(missing), len(base), missing[:5]))
    ok = rc0 == 0 and rcb == 0 and rc1 != 0 and not missing
    log.append("CONFIRMED" if ok else "NOT CONFIRMED")
    if ok:
        dst = os.path.join("/verif/seeded", name)
        shutil.rmtree(dst, ignore_errors=True)
        os.makedirs(dst)
        shutil.copy(os.path.join(sd, "patch.diff"), dst)
        for d in demos:
            shutil.copy(agent_demo_src[d], os.path.join(dst, os.path.basename(d)))
        meta["demo_files"] = demos
        meta["confirmed_by_main"] = log
        json.dump(meta, open(os.path.join(dst, "meta.json"), "w"), indent=1)
    else:
        open(os.path.join(agent, "CONFIRM_FAIL_%s.txt" % sub), "w").write("\n".join(log) + "\n---- demo without\n" + out0[-2000:] + "\n---- demo with\n" + out1[-2000:])
finally:
    print(name, "|", " ; ".join(log))
    subprocess.run(["git", "-C", "/repo", "worktree", "remove", "--force", wt], capture_output=True)
    shutil.rmtree(wt, ignore_errors=True)

#!/usr/bin/env python3
"""Runs the quick checks against every confirmed seeded change (on scratch copies of /repo, never /repo
itself) and records which checks report a violation.  Writes seeded/MATRIX.json and seeded/MATRIX.md."""
import json, os, subprocess, sys, tempfile, shutil, time
ROOT = "/verif"
# related checks that are run in addition to the check of the property a change was written against
EXTRA = {"C03-commit-checker-pairs-32bit-checks": ["C06", "C17"], "C01-queryloop-bound-from-other-copy": ["C20"], "C07-rangecheck-single-64bit": ["C05", "C06"],
         "C16-qdf-from-max-qdf": ["C19"], "C02-powwitness-int64-sign": ["C19"], "C05-basesum-noreduce-product": ["C15"],
         "C17-rangecheck-toplimb-maxint32": ["C06"], "C14-basewidth-guard-relaxed": ["C06"]}
only = sys.argv[1:]
res_path = os.environ.get("MATRIX_JSON", os.path.join(ROOT, "seeded", "MATRIX.json"))
md_path = os.environ.get("MATRIX_MD", os.path.join(ROOT, "seeded", "MATRIX.md"))
res = json.load(open(res_path)) if os.path.exists(res_path) else {}
names = sorted(d for d in os.listdir(os.path.join(ROOT, "seeded")) if os.path.isdir(os.path.join(ROOT, "seeded", d)))
for name in names:
    if only and name not in only:
        continue
    meta = json.load(open(os.path.join(ROOT, "seeded", name, "meta.json")))
    checks = [meta["property"]] + EXTRA.get(name, [])
    wt = tempfile.mkdtemp(prefix="mutrun.", dir="/tmp")
    subprocess.run(["git", "-C", "/repo", "worktree", "add", "-q", "--detach", wt + "/r", "HEAD"], check=True)
    try:
        subprocess.run(["git", "-C", wt + "/r", "apply", os.path.join(ROOT, "seeded", name, "patch.diff")], check=True)
        for c in checks:
            t0 = time.time()
            p = subprocess.run(["./check", c, "--tier", "quick", "--shards", os.environ.get("SHARDS", "10")], cwd=ROOT,
                               env=dict(os.environ, VERIF_REPO_OVERRIDE=wt + "/r"), capture_output=True, text=True)
            viol = [l for l in p.stdout.splitlines() if l.startswith("VIOLATION")]
            desc = [l.strip() for l in p.stderr.splitlines() if l.startswith("  ")][:1]
            res.setdefault(name, {})[c] = {"rc": p.returncode, "violations": len(viol), "wall_s": round(time.time() - t0, 1), "first": (desc[0][:220] if desc else "")}
            print(name, c, "rc=%d" % p.returncode, flush=True)
            json.dump(res, open(res_path, "w"), indent=1)
    finally:
        subprocess.run(["git", "-C", "/repo", "worktree", "remove", "--force", wt + "/r"])
        shutil.rmtree(wt, ignore_errors=True)
for f in os.listdir(os.path.join(ROOT, "bin")):
    if f.startswith("alt-") or f.startswith("props-"):
        os.remove(os.path.join(ROOT, "bin", f))
with open(md_path, "w") as f:
    f.write("Quick tier, VERIF_SEED=%s.\n\n" % os.environ.get("VERIF_SEED", "1"))
    f.write("| seeded change | breaks | needs | caught by (quick tier) | first report |\n|---|---|---|---|---|\n")
    for name in names:
        meta = json.load(open(os.path.join(ROOT, "seeded", name, "meta.json")))
        r = res.get(name, {})
        caught = ", ".join("%s (%ss)" % (c, v["wall_s"]) for c, v in r.items() if v["rc"] == 1) or "MISSED"
        missed = ", ".join(c for c, v in r.items() if v["rc"] != 1)
        first = next((v["first"] for v in r.values() if v["rc"] == 1 and v["first"]), "")
        f.write("| %s | %s | %s | %s%s | %s |\n" % (name, meta["property"], str(meta.get("needs", "")).replace("|", "/").replace("\n", " ")[:260], caught,
                                                   (" ; not by " + missed) if missed else "", first.replace("|", "/")))
print("written")

#!/bin/bash
# usage: tools/trymutant2.sh <patch.diff> <property id>...  -- applies the patch to a scratch copy of /repo
# (never /repo itself) and runs the checks against that copy via VERIF_REPO_OVERRIDE.
set -u
patch=$(readlink -f "$1"); shift
wt=$(mktemp -d /tmp/mutrun.XXXXXX)
git -C /repo worktree add -q --detach "$wt/r" HEAD || exit 2
trap 'git -C /repo worktree remove --force "$wt/r"; rm -rf "$wt"; rm -f /verif/bin/alt-* /verif/bin/props-*.test' EXIT
git -C "$wt/r" apply "$patch" || { echo "patch does not apply"; exit 2; }
cd /verif
for id in "$@"; do
  out=$(VERIF_REPO_OVERRIDE="$wt/r" ./check "$id" --tier ${TIER:-quick} ${SHARDS:+--shards $SHARDS} 2>&1)
  rc=$?
  echo "== $id rc=$rc"; echo "$out" | grep -E "^VIOLATION|INCONCLUSIVE|BUILD FAILED|evals=" | head -4
  echo "$out" | grep -A1 "^VIOLATION" | grep -v "^VIOLATION\|^--" | head -2 | cut -c1-300
done

// Package cs compiles gadget circuits with gnark's real builders (R1CS for Groth16, SCS for
// PLONK), optionally wrapped so that the builder range-checks natively, and solves them with
// optional hint overrides.
package cs

import (
	"fmt"
	"math/big"
	"os"

	"verif/gad"

	"github.com/consensys/gnark-crypto/ecc"
	"github.com/consensys/gnark/constraint"
	"github.com/consensys/gnark/constraint/solver"
	"github.com/consensys/gnark/frontend"
	"github.com/consensys/gnark/frontend/cs/r1cs"
	"github.com/consensys/gnark/frontend/cs/scs"
	stdbits "github.com/consensys/gnark/std/math/bits"
	"github.com/consensys/gnark/test"
	gl "github.com/wormhole-foundation/example-near-light-client/goldilocks"
)

type Kind int

const (
	R1CS Kind = iota
	SCS
)

func (k Kind) String() string { return [...]string{"r1cs", "scs"}[k] }

// Mech is the range-check mechanism the circuit is built for.
type Mech int

const (
	MechCommit     Mech = iota // builder as is: it implements frontend.Committer
	MechNative                 // builder wrapped to implement frontend.Rangechecker
	MechForcedBits             // USE_BIT_DECOMPOSITION_RANGE_CHECK=true
	MechNativeThin             // builder wrapped by a thin struct that only adds Check: Compiler() is the inner builder
)

func (m Mech) String() string { return [...]string{"commit", "native", "forcedbits", "native-thin"}[m] }

type kv interface {
	SetKeyValue(key, value any)
	GetKeyValue(key any) any
}

// nativeBuilder makes a real builder look like one that range-checks natively: Check is an
// exact n-bit decomposition emitted into the wrapped constraint system.
type nativeBuilder struct{ frontend.Builder }

func (b nativeBuilder) Check(v frontend.Variable, bits int) {
	stdbits.ToBinary(b.Builder, v, stdbits.WithNbDigits(bits))
}
func (b nativeBuilder) Compiler() frontend.Compiler { return b }
func (b nativeBuilder) SetKeyValue(key, value any)  { b.Builder.(kv).SetKeyValue(key, value) }
func (b nativeBuilder) GetKeyValue(key any) any     { return b.Builder.(kv).GetKeyValue(key) }

// nativeThin is the other way to offer native range checks: a struct that embeds the builder and only
// adds Check.  Its Compiler() (promoted from the embedded builder) is the wrapped builder itself, which is
// NOT a Rangechecker.
type nativeThin struct{ frontend.Builder }

func (b nativeThin) Check(v frontend.Variable, bits int) {
	stdbits.ToBinary(b.Builder, v, stdbits.WithNbDigits(bits))
}
func (b nativeThin) SetKeyValue(key, value any) { b.Builder.(kv).SetKeyValue(key, value) }
func (b nativeThin) GetKeyValue(key any) any    { return b.Builder.(kv).GetKeyValue(key) }

type System struct {
	Kind      Kind
	Mech      Mech
	CCS       constraint.ConstraintSystem
	nIn, nExp int
}

func withEnv(m Mech, f func()) {
	old, had := os.LookupEnv("USE_BIT_DECOMPOSITION_RANGE_CHECK")
	if m == MechForcedBits {
		os.Setenv("USE_BIT_DECOMPOSITION_RANGE_CHECK", "true")
	} else {
		os.Unsetenv("USE_BIT_DECOMPOSITION_RANGE_CHECK")
	}
	defer func() {
		if had {
			os.Setenv("USE_BIT_DECOMPOSITION_RANGE_CHECK", old)
		} else {
			os.Unsetenv("USE_BIT_DECOMPOSITION_RANGE_CHECK")
		}
	}()
	f()
}

// Compile builds the gadget circuit.  A panic or error of Define/Compile is returned as error
// (the code's way of refusing a configuration).
func Compile(kind Kind, mech Mech, nIn, nExp int, f gad.Fn) (sys *System, err error) {
	defer func() {
		if r := recover(); r != nil {
			err = fmt.Errorf("compile panic: %v", r)
		}
	}()
	var nb frontend.NewBuilder = r1cs.NewBuilder
	if kind == SCS {
		nb = scs.NewBuilder
	}
	inner := nb
	if mech == MechNative || mech == MechNativeThin {
		nb = func(field *big.Int, cfg frontend.CompileConfig) (frontend.Builder, error) {
			b, err := inner(field, cfg)
			if err != nil {
				return nil, err
			}
			if mech == MechNativeThin {
				return nativeThin{b}, nil
			}
			return nativeBuilder{b}, nil
		}
	}
	id := gad.Register(f)
	defer gad.Unregister(id)
	c := &gad.Circuit{In: make([]frontend.Variable, nIn), Exp: make([]frontend.Variable, nExp), FID: id}
	var ccs constraint.ConstraintSystem
	withEnv(mech, func() {
		gl.VerifResetChips()
		ccs, err = frontend.Compile(ecc.BN254.ScalarField(), nb, c)
		gl.VerifResetChips()
	})
	if err != nil {
		return nil, err
	}
	return &System{Kind: kind, Mech: mech, CCS: ccs, nIn: nIn, nExp: nExp}, nil
}

func assignment(in, exp []*big.Int) *gad.Circuit {
	a := &gad.Circuit{In: make([]frontend.Variable, len(in)), Exp: make([]frontend.Variable, len(exp))}
	for i := range in {
		a.In[i] = new(big.Int).Set(in[i])
	}
	for i := range exp {
		a.Exp[i] = new(big.Int).Set(exp[i])
	}
	return a
}

// Solve returns nil iff the constraint system is satisfied by the inputs (with the given hint
// overrides standing in for a dishonest prover).
func (s *System) Solve(in, exp []*big.Int, opts ...solver.Option) (err error) {
	defer func() {
		if r := recover(); r != nil {
			err = fmt.Errorf("solver panic: %v", r)
		}
	}()
	w, err := frontend.NewWitness(assignment(in, exp), ecc.BN254.ScalarField())
	if err != nil {
		return fmt.Errorf("witness: %w", err)
	}
	return s.CCS.IsSolved(w, opts...)
}

// GnarkEngine evaluates the gadget on gnark's own test engine.
func GnarkEngine(mech Mech, in, exp []*big.Int, f gad.Fn) (err error) {
	defer func() {
		if r := recover(); r != nil {
			err = fmt.Errorf("engine panic: %v", r)
		}
	}()
	id := gad.Register(f)
	defer gad.Unregister(id)
	c := &gad.Circuit{In: make([]frontend.Variable, len(in)), Exp: make([]frontend.Variable, len(exp)), FID: id}
	withEnv(mech, func() {
		gl.VerifResetChips()
		err = test.IsSolved(c, assignment(in, exp), ecc.BN254.ScalarField())
		gl.VerifResetChips()
	})
	return err
}

// CompileCircuit compiles an arbitrary circuit (e.g. the whole verifier) for the given proof
// system and range-check mechanism.
func CompileCircuit(kind Kind, mech Mech, c frontend.Circuit) (sys *System, err error) {
	defer func() {
		if r := recover(); r != nil {
			err = fmt.Errorf("compile panic: %v", r)
		}
	}()
	var nb frontend.NewBuilder = r1cs.NewBuilder
	if kind == SCS {
		nb = scs.NewBuilder
	}
	inner := nb
	if mech == MechNative || mech == MechNativeThin {
		nb = func(field *big.Int, cfg frontend.CompileConfig) (frontend.Builder, error) {
			b, err := inner(field, cfg)
			if err != nil {
				return nil, err
			}
			if mech == MechNativeThin {
				return nativeThin{b}, nil
			}
			return nativeBuilder{b}, nil
		}
	}
	var ccs constraint.ConstraintSystem
	withEnv(mech, func() {
		gl.VerifResetChips()
		ccs, err = frontend.Compile(ecc.BN254.ScalarField(), nb, c)
		gl.VerifResetChips()
	})
	if err != nil {
		return nil, err
	}
	return &System{Kind: kind, Mech: mech, CCS: ccs}, nil
}

// SolveCircuit returns nil iff the assignment satisfies the compiled system.
func (s *System) SolveCircuit(assignment frontend.Circuit, opts ...solver.Option) (err error) {
	defer func() {
		if r := recover(); r != nil {
			err = fmt.Errorf("solver panic: %v", r)
		}
	}()
	w, err := frontend.NewWitness(assignment, ecc.BN254.ScalarField())
	if err != nil {
		return fmt.Errorf("witness: %w", err)
	}
	return s.CCS.IsSolved(w, opts...)
}

var glModulus = new(big.Int).SetUint64(0xffffffff00000001)

// TolerantHints replaces the shipped Goldilocks hint functions by versions that compute the same
// honest outputs but neither panic nor error on out-of-domain operands.  A malicious prover is
// not bound to the shipped hint code, and gnark's solver runs hints in goroutines where a panic
// would kill the whole process instead of reporting an unsatisfied system.
func TolerantHints() []solver.Option {
	mulAdd := func(_ *big.Int, in, out []*big.Int) error {
		x := new(big.Int).Mul(in[0], in[1])
		x.Add(x, in[2])
		out[0].DivMod(x, glModulus, out[1])
		return nil
	}
	inverse := func(_ *big.Int, in, out []*big.Int) error {
		x := new(big.Int).Mod(in[0], glModulus)
		out[0].SetInt64(0)
		if x.Sign() != 0 {
			out[0].ModInverse(x, glModulus)
		}
		return nil
	}
	split := func(_ *big.Int, in, out []*big.Int) error {
		out[0].Rsh(in[0], 32)
		out[1].And(in[0], big.NewInt(0xffffffff))
		return nil
	}
	return []solver.Option{
		solver.OverrideHint(solver.GetHintID(gl.MulAddHint), mulAdd),
		solver.OverrideHint(solver.GetHintID(gl.InverseHint), inverse),
		solver.OverrideHint(solver.GetHintID(gl.SplitLimbsHint), split),
	}
}

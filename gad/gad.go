// Package gad runs small gadget circuits (closures over frontend.API) on the evaluation engine
// and on gnark's compiled constraint systems.
package gad

import (
	"math/big"
	"sync"

	"verif/eng"

	"github.com/consensys/gnark/frontend"
)

// Fn builds the gadget on api from the input variables and returns the output variables.
type Fn func(api frontend.API, in []frontend.Variable) []frontend.Variable

// Circuit is the generic circuit wrapper: inputs In, optional expected outputs Exp (asserted
// equal to the gadget's outputs when non-empty).
type Circuit struct {
	In  []frontend.Variable
	Exp []frontend.Variable
	FID int                  `gnark:"-"` // registry id of the gadget closure (func fields break gnark's circuit cloning)
	Out *[]frontend.Variable `gnark:"-"`
}

func (c *Circuit) Define(api frontend.API) error {
	out := lookup(c.FID)(api, c.In)
	if c.Out != nil {
		*c.Out = out
	}
	if len(c.Exp) > 0 {
		if len(c.Exp) != len(out) {
			panic("gad: expected-output count mismatch")
		}
		for i := range out {
			api.AssertIsEqual(out[i], c.Exp[i])
		}
	}
	return nil
}

var (
	regMu sync.Mutex
	reg   = map[int]Fn{}
	regN  int
)

// Register stores a gadget closure and returns its id; Unregister drops it.
func Register(f Fn) int {
	regMu.Lock()
	defer regMu.Unlock()
	regN++
	reg[regN] = f
	return regN
}
func Unregister(id int) { regMu.Lock(); delete(reg, id); regMu.Unlock() }
func lookup(id int) Fn {
	regMu.Lock()
	defer regMu.Unlock()
	f := reg[id]
	if f == nil {
		panic("gad: unknown gadget id")
	}
	return f
}

func vars(n int) []frontend.Variable {
	v := make([]frontend.Variable, n)
	for i := range v {
		v[i] = 0
	}
	return v
}

func toVars(x []*big.Int) []frontend.Variable {
	v := make([]frontend.Variable, len(x))
	for i := range x {
		v[i] = new(big.Int).Set(x[i])
	}
	return v
}

// Run evaluates the gadget on the engine and returns the verdict and the concrete outputs
// (outputs are only meaningful when the outcome is ACCEPT).
func Run(opt eng.Options, in []*big.Int, f Fn) (eng.Result, []*big.Int) {
	return RunExp(opt, in, nil, f)
}

// RunExp additionally asserts the outputs equal to exp inside the circuit.
func RunExp(opt eng.Options, in, exp []*big.Int, f Fn) (eng.Result, []*big.Int) {
	var outs []frontend.Variable
	id := Register(f)
	defer Unregister(id)
	tmpl := &Circuit{In: vars(len(in)), Exp: vars(len(exp)), FID: id, Out: &outs}
	asg := &Circuit{In: toVars(in), Exp: toVars(exp)}
	res := eng.Run(tmpl, asg, opt)
	if res.Outcome != eng.Accept {
		return res, nil
	}
	o := make([]*big.Int, len(outs))
	for i := range outs {
		o[i] = eng.ValueOf(outs[i])
	}
	return res, o
}

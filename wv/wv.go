// Package wv ("whole verifier") builds verifier-circuit instances from the frozen corpus:
// full proofs and their query-round-prefix restrictions, leaf addressing with kinds, and the
// matching reference-verifier view of the same instance.
package wv

import (
	"bytes"
	"encoding/json"
	"fmt"
	"math/big"
	"os"
	"path/filepath"
	"reflect"
	"regexp"
	"strconv"
	"strings"
	"sync"

	"verif/corp"
	"verif/eng"
	"verif/ref"

	"github.com/consensys/gnark/frontend"
	"github.com/wormhole-foundation/example-near-light-client/cmd"
	"github.com/wormhole-foundation/example-near-light-client/types"
	"github.com/wormhole-foundation/example-near-light-client/variables"
	"github.com/wormhole-foundation/example-near-light-client/verifier"
)

type Inst struct {
	Base string  // corpus name
	K    int     // number of query rounds kept
	Pow  int     // >= 0: proof_of_work_bits of the configuration lowered to this value (both copies)
	Zero bool    // zero query rounds
	Wit  *uint64 // replaced pow_witness of the proof document
	Raw  types.ProofWithPublicInputsRaw
	VRaw types.VerifierOnlyCircuitDataRaw
	CD   types.CommonCircuitData
	Ref  *corp.Ref
}

func (in *Inst) Name() string {
	n := fmt.Sprintf("%s/k=%d", in.Base, in.K)
	if in.Pow >= 0 {
		n += fmt.Sprintf("/pow_bits=%d", in.Pow)
	}
	if in.Wit != nil {
		n += fmt.Sprintf("/pow_witness=%d", *in.Wit)
	}
	return n
}

var (
	mu    sync.Mutex
	cache = map[string][]byte{}
)

func readFile(p string) []byte {
	mu.Lock()
	defer mu.Unlock()
	if b, ok := cache[p]; ok {
		return b
	}
	b, err := os.ReadFile(p)
	if err != nil {
		panic(err)
	}
	cache[p] = b
	return b
}

// Load returns corpus instance base restricted to its first k query rounds (k<=0 or k>=total:
// the full proof).  The restriction is valid because the query indices are the last draws of the
// transcript: the first k of them do not depend on how many are drawn.
// A base name may carry variants, separated by "@":
//
//	"A1@pow0"        corpus proof A1 checked against its description with proof_of_work_bits lowered to 0
//	"A1@k0@pow0"     additionally restricted to zero query rounds (a degenerate but well-formed configuration)
//	"A1@k0@pow0@w7"  and with the proof document's pow_witness replaced by 7: without grinding and without
//	                 queries every witness value gives a proof the reference verifier accepts
func Load(base string, k int) *Inst {
	parts := strings.Split(base, "@")
	pow := -1
	zero := false
	var wit *uint64
	for _, v := range parts[1:] {
		switch {
		case strings.HasPrefix(v, "pow"):
			n, err := strconv.Atoi(v[3:])
			must(err)
			pow = n
		case v == "k0":
			zero = true
		case strings.HasPrefix(v, "w"):
			n, err := strconv.ParseUint(v[1:], 10, 64)
			must(err)
			wit = &n
		default:
			panic("wv: unknown variant " + v)
		}
	}
	if wit != nil && !(zero && pow == 0) {
		panic("wv: a replaced pow_witness is only valid without queries and without grinding")
	}
	in := LoadPow(parts[0], k, pow)
	if zero {
		in.K = 0
		in.Zero = true
		in.Raw.Proof.OpeningProof.QueryRoundProofs = in.Raw.Proof.OpeningProof.QueryRoundProofs[:0]
		in.CD.Config.FriConfig.NumQueryRounds, in.CD.FriParams.Config.NumQueryRounds = 0, 0
		in.Ref.P.Proof.OpeningProof.QueryRoundProofs = in.Ref.P.Proof.OpeningProof.QueryRoundProofs[:0]
		in.Ref.C.Config.FriConfig.NumQueryRounds, in.Ref.C.FriParams.Config.NumQueryRounds = 0, 0
	}
	if wit != nil {
		in.Wit = wit
		in.Raw.Proof.OpeningProof.PowWitness = *wit
		in.Ref.P.Proof.OpeningProof.PowWitness = *wit
	}
	return in
}

// LoadPow additionally lowers the configured proof-of-work difficulty to pow bits (pow < 0: keep).
// An honest proof stays an honest proof of the adjusted configuration: the transcript does not
// contain the difficulty, and a response with >= 16 leading zeros has >= pow of them.
func LoadPow(base string, k int, pow int) *Inst {
	in := &Inst{Base: base, Pow: -1}
	in.Raw = types.ReadProofWithPublicInputsFromRequest(readFile(corp.Path(base, "proof.json")))
	in.VRaw = types.ReadVerifierOnlyCircuitDataFromRequest(readFile(corp.Path(base, "verifier_data.json")))
	in.CD = types.ReadCommonCircuitData(corp.Path(base, "common_data.json"))
	in.Ref = &corp.Ref{Name: base}
	must(json.Unmarshal(readFile(corp.Path(base, "proof.json")), &in.Ref.P))
	must(json.Unmarshal(readFile(corp.Path(base, "verifier_data.json")), &in.Ref.V))
	must(json.Unmarshal(readFile(corp.Path(base, "common_data.json")), &in.Ref.C))
	total := len(in.Raw.Proof.OpeningProof.QueryRoundProofs)
	if k <= 0 || k > total {
		k = total
	}
	in.K = k
	if k < total {
		in.Raw.Proof.OpeningProof.QueryRoundProofs = in.Raw.Proof.OpeningProof.QueryRoundProofs[:k]
		in.CD.Config.FriConfig.NumQueryRounds = uint64(k)
		in.CD.FriParams.Config.NumQueryRounds = uint64(k)
		in.Ref.P.Proof.OpeningProof.QueryRoundProofs = in.Ref.P.Proof.OpeningProof.QueryRoundProofs[:k]
		in.Ref.C.Config.FriConfig.NumQueryRounds = uint64(k)
		in.Ref.C.FriParams.Config.NumQueryRounds = uint64(k)
	}
	if pow >= 0 {
		if uint64(pow) > in.CD.FriParams.Config.ProofOfWorkBits {
			panic("wv: the proof-of-work difficulty can only be lowered")
		}
		in.Pow = pow
		in.CD.Config.FriConfig.ProofOfWorkBits = uint64(pow)
		in.CD.FriParams.Config.ProofOfWorkBits = uint64(pow)
		in.Ref.C.Config.FriConfig.ProofOfWorkBits = uint64(pow)
		in.Ref.C.FriParams.Config.ProofOfWorkBits = uint64(pow)
	}
	return in
}

func must(err error) {
	if err != nil {
		panic(err)
	}
}

// Circuit returns a fresh VerifierCircuit (usable as template or assignment).
func (in *Inst) Circuit() *verifier.VerifierCircuit {
	pw, _ := variables.DeserializeProofWithPublicInputs(in.Raw)
	vd := variables.DeserializeVerifierOnlyCircuitData(in.VRaw)
	return &verifier.VerifierCircuit{Proof: pw.Proof, PublicInputs: pw.PublicInputs, VerifierData: vd, CommonCircuitData: in.CD}
}

// PackPublicInputs computes the four on-chain public values the way cmd/web-api.go does.
func PackPublicInputs(pis []uint64) [4]*big.Int {
	var out [4]*big.Int
	for j := 0; j < 4; j++ {
		limbs := make([]byte, 16)
		for i := 0; i < 4; i++ {
			x := pis[j*4+i]
			limbs[i*4] = byte(x >> 24)
			limbs[i*4+1] = byte(x >> 16)
			limbs[i*4+2] = byte(x >> 8)
			limbs[i*4+3] = byte(x)
		}
		out[j] = new(big.Int).SetBytes(limbs)
	}
	return out
}

// FixedAssignment returns the proving-time assignment of the 4-input wrapper as cmd/web-api.go
// builds it (16 public inputs required).
func (in *Inst) FixedAssignment() *verifier.CircuitFixed {
	pw, pis := variables.DeserializeProofWithPublicInputs(in.Raw)
	vd := variables.DeserializeVerifierOnlyCircuitData(in.VRaw)
	c := &verifier.CircuitFixed{ProofWithPis: pw, VerifierData: vd}
	if len(pis) >= 16 {
		p := PackPublicInputs(pis)
		for j := 0; j < 4; j++ {
			c.PublicInputs[j] = frontend.Variable(p[j])
		}
	} else {
		for j := 0; j < 4; j++ {
			c.PublicInputs[j] = 0
		}
	}
	return c
}

// ---------- leaf addressing ----------

type Leaf struct {
	Index int
	Name  string
	Kind  string // name with list indices abstracted (tree and step indices kept)
	Round int    // query round or -1
	Hash  bool   // BN254 hash (mod r) rather than Goldilocks element
	Pos   string // "first"/"last"/"mid" within its innermost list
}

var (
	reIdx   = regexp.MustCompile(`_(\d+)`)
	reRound = regexp.MustCompile(`QueryRoundProofs_(\d+)`)
	reTree  = regexp.MustCompile(`EvalsProofs_(\d+)`)
	reStep  = regexp.MustCompile(`Steps_(\d+)`)
)

func classify(name string) (kind string, round int, hash bool) {
	round = -1
	if m := reRound.FindStringSubmatch(name); m != nil {
		fmt.Sscan(m[1], &round)
	}
	k := name
	tree, step := "", ""
	if m := reTree.FindStringSubmatch(name); m != nil {
		tree = m[1]
	}
	if m := reStep.FindStringSubmatch(name); m != nil {
		step = m[1]
	}
	k = reIdx.ReplaceAllString(k, "")
	k = strings.TrimSuffix(k, "_Limb")
	if tree != "" {
		k = strings.Replace(k, "EvalsProofs", "EvalsProofs["+tree+"]", 1)
	}
	if step != "" {
		k = strings.Replace(k, "Steps", "Steps["+step+"]", 1)
	}
	hash = strings.Contains(name, "Cap") || strings.Contains(name, "Siblings") || strings.Contains(name, "CircuitDigest")
	return k, round, hash
}

// Leaves lists the leaves of a circuit value in schema order together with settable handles.
func Leaves(c frontend.Circuit) ([]Leaf, []reflect.Value) {
	vals, names, err := eng.Leaves(c)
	must(err)
	ls := make([]Leaf, len(names))
	for i, n := range names {
		k, r, h := classify(n)
		ls[i] = Leaf{Index: i, Name: n, Kind: k, Round: r, Hash: h}
	}
	// position within runs of the same kind+round
	for i := 0; i < len(ls); {
		j := i
		for j < len(ls) && ls[j].Kind == ls[i].Kind && ls[j].Round == ls[i].Round {
			j++
		}
		for t := i; t < j; t++ {
			switch {
			case t == i:
				ls[t].Pos = "first"
			case t == j-1:
				ls[t].Pos = "last"
			default:
				ls[t].Pos = "mid"
			}
		}
		i = j
	}
	return ls, vals
}

// Value reads a leaf of an assignment as an integer.
func Value(v reflect.Value) *big.Int { return eng.ValueOf(v.Interface()) }

// Set overwrites a leaf of an assignment.
func Set(v reflect.Value, x *big.Int) { v.Set(reflect.ValueOf(new(big.Int).Set(x))) }

// Challenges returns the reference verifier's view of the instance's Fiat-Shamir challenges.
func (in *Inst) Challenges() *ref.Challenges {
	return ref.GetChallenges(&in.Ref.C, &in.Ref.P, &in.Ref.V, ref.HashNoPadGL(in.Ref.P.PublicInputs))
}

// SelectedCapSlots returns, per cap slot 0..15, how many of the instance's query rounds select it.
func (in *Inst) SelectedCapSlots() [16]int {
	var sel [16]int
	ch := in.Challenges()
	nlog := in.Ref.C.FriParams.DegreeBits + in.Ref.C.FriParams.Config.RateBits
	for _, idx := range ch.QueryIndices {
		sel[idx>>(nlog-4)]++
	}
	return sel
}

// writeFiles materialises the (possibly k-restricted) instance as the three files the
// repository's compile paths read, in a fresh directory; the caller removes it.
func (in *Inst) writeFiles() string {
	dir, err := os.MkdirTemp(os.Getenv("VERIF_OUT"), "inst-")
	must(err)
	gen := func(file string) map[string]any {
		d := json.NewDecoder(bytes.NewReader(readFile(corp.Path(in.Base, file))))
		d.UseNumber()
		var m map[string]any
		must(d.Decode(&m))
		return m
	}
	p := gen("proof.json")
	op := p["proof"].(map[string]any)["opening_proof"].(map[string]any)
	op["query_round_proofs"] = op["query_round_proofs"].([]any)[:in.K]
	c := gen("common_data.json")
	k := json.Number(fmt.Sprint(in.K))
	c["config"].(map[string]any)["fri_config"].(map[string]any)["num_query_rounds"] = k
	c["fri_params"].(map[string]any)["config"].(map[string]any)["num_query_rounds"] = k
	if in.Wit != nil {
		op["pow_witness"] = json.Number(fmt.Sprint(*in.Wit))
	}
	if in.Pow >= 0 {
		pw := json.Number(fmt.Sprint(in.Pow))
		c["config"].(map[string]any)["fri_config"].(map[string]any)["proof_of_work_bits"] = pw
		c["fri_params"].(map[string]any)["config"].(map[string]any)["proof_of_work_bits"] = pw
	}
	write := func(name string, v any) {
		b, err := json.Marshal(v)
		must(err)
		must(os.WriteFile(filepath.Join(dir, name), b, 0o644))
	}
	write("proof_with_public_inputs.json", p)
	write("common_circuit_data.json", c)
	must(os.WriteFile(filepath.Join(dir, "verifier_only_circuit_data.json"), readFile(corp.Path(in.Base, "verifier_data.json")), 0o644))
	return dir
}

// FixedTemplate builds the 4-input wrapper circuit through the constructor cmd/compile.go uses.
func (in *Inst) FixedTemplate() *verifier.CircuitFixed {
	dir := in.writeFiles()
	defer os.RemoveAll(dir)
	c := cmd.VerifNewFixedCircuit(dir)
	return &c
}

// PlainTemplate builds the VerifierCircuit through the constructor verifier.CompileVerifierCircuit uses.
func (in *Inst) PlainTemplate() *verifier.VerifierCircuit {
	dir := in.writeFiles()
	defer os.RemoveAll(dir)
	c := verifier.VerifNewVerifierCircuit(dir)
	return &c
}

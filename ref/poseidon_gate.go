package ref

// Fast-partial-round constants (needed because the PoseidonGate exposes the fast schedule's
// S-box inputs as wires).  Validated natively: fast permutation == naive permutation.
type GLFast struct {
	FirstRC [12]F
	RC      [22]F
	VS      [22][11]F
	WHats   [22][11]F
	Init    [11][11]F
}

var FAST GLFast

func sbox7E(x E) E {
	x2 := EMul(x, x)
	x4 := EMul(x2, x2)
	x3 := EMul(x, x2)
	return EMul(x4, x3)
}
func mdsE(s [12]E) [12]E {
	var o [12]E
	for r := 0; r < 12; r++ {
		acc := EZero
		for i := 0; i < 12; i++ {
			acc = EAdd(acc, EScal(s[(i+r)%12], GL.Circ[i]))
		}
		acc = EAdd(acc, EScal(s[r], GL.Diag[r]))
		o[r] = acc
	}
	return o
}
func partialInitE(s [12]E) [12]E {
	var o [12]E
	o[0] = s[0]
	for r := 1; r < 12; r++ {
		for c := 1; c < 12; c++ {
			o[c] = EAdd(o[c], EScal(s[r], FAST.Init[r-1][c-1]))
		}
	}
	return o
}
func partialFastE(s [12]E, r int) [12]E {
	d := EScal(s[0], Add(GL.Circ[0], GL.Diag[0]))
	for i := 1; i < 12; i++ {
		d = EAdd(d, EScal(s[i], FAST.WHats[r][i-1]))
	}
	var o [12]E
	o[0] = d
	for i := 1; i < 12; i++ {
		o[i] = EAdd(s[i], EScal(s[0], FAST.VS[r][i-1]))
	}
	return o
}

// Fast-schedule permutation over E (used to self-check FAST against the naive one on base inputs).
func PoseidonFastE(st [12]E) [12]E {
	rc := 0
	for r := 0; r < 4; r++ {
		for i := 0; i < 12; i++ {
			st[i] = EAdd(st[i], EF(GL.RC[12*rc+i]))
		}
		for i := range st {
			st[i] = sbox7E(st[i])
		}
		st = mdsE(st)
		rc++
	}
	for i := 0; i < 12; i++ {
		st[i] = EAdd(st[i], EF(FAST.FirstRC[i]))
	}
	st = partialInitE(st)
	for r := 0; r < 22; r++ {
		st[0] = sbox7E(st[0])
		st[0] = EAdd(st[0], EF(FAST.RC[r]))
		st = partialFastE(st, r)
	}
	rc += 22
	for r := 0; r < 4; r++ {
		for i := 0; i < 12; i++ {
			st[i] = EAdd(st[i], EF(GL.RC[12*rc+i]))
		}
		for i := range st {
			st[i] = sbox7E(st[i])
		}
		st = mdsE(st)
		rc++
	}
	return st
}

type PoseidonGate struct{}

func (PoseidonGate) Eval(v *Vars) []E {
	var c []E
	w := v.Wires
	const wSwap, wDelta, wFull0, wPartial, wFull1 = 24, 25, 29, 65, 87
	swap := w[wSwap]
	c = append(c, EMul(swap, ESub(swap, EOne)))
	for i := 0; i < 4; i++ {
		lhs, rhs, d := w[i], w[i+4], w[wDelta+i]
		c = append(c, ESub(EMul(swap, ESub(rhs, lhs)), d))
	}
	var st [12]E
	for i := 0; i < 4; i++ {
		d := w[wDelta+i]
		st[i] = EAdd(w[i], d)
		st[i+4] = ESub(w[i+4], d)
	}
	for i := 8; i < 12; i++ {
		st[i] = w[i]
	}
	rc := 0
	for r := 0; r < 4; r++ {
		for i := 0; i < 12; i++ {
			st[i] = EAdd(st[i], EF(GL.RC[12*rc+i]))
		}
		if r != 0 {
			for i := 0; i < 12; i++ {
				in := w[wFull0+12*(r-1)+i]
				c = append(c, ESub(st[i], in))
				st[i] = in
			}
		}
		for i := range st {
			st[i] = sbox7E(st[i])
		}
		st = mdsE(st)
		rc++
	}
	for i := 0; i < 12; i++ {
		st[i] = EAdd(st[i], EF(FAST.FirstRC[i]))
	}
	st = partialInitE(st)
	for r := 0; r < 21; r++ {
		in := w[wPartial+r]
		c = append(c, ESub(st[0], in))
		st[0] = EAdd(sbox7E(in), EF(FAST.RC[r]))
		st = partialFastE(st, r)
	}
	in := w[wPartial+21]
	c = append(c, ESub(st[0], in))
	st[0] = sbox7E(in)
	st = partialFastE(st, 21)
	rc += 22
	for r := 0; r < 4; r++ {
		for i := 0; i < 12; i++ {
			st[i] = EAdd(st[i], EF(GL.RC[12*rc+i]))
		}
		for i := 0; i < 12; i++ {
			in := w[wFull1+12*r+i]
			c = append(c, ESub(st[i], in))
			st[i] = in
		}
		for i := range st {
			st[i] = sbox7E(st[i])
		}
		st = mdsE(st)
		rc++
	}
	for i := 0; i < 12; i++ {
		c = append(c, ESub(st[i], w[12+i]))
	}
	return c
}

// Exported single-layer helpers over E (used to check the circuit's extension-field layer helpers).
func SBox7E(x E) E                      { return sbox7E(x) }
func MdsE(s [12]E) [12]E                { return mdsE(s) }
func PartialInitE(s [12]E) [12]E        { return partialInitE(s) }
func PartialFastE(s [12]E, r int) [12]E { return partialFastE(s, r) }

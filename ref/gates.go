package ref

import (
	"fmt"
	"regexp"
	"strconv"
	"strings"
)

type Vars struct {
	Consts []E
	Wires  []E
	PIHash [4]F
}

func (v *Vars) alg(start uint64) A { return A{v.Wires[start], v.Wires[start+1]} }

type Gate interface {
	Eval(v *Vars) []E
}

func pushA(c []E, a A) []E { return append(c, a[0], a[1]) }

type Noop struct{}

func (Noop) Eval(v *Vars) []E { return nil }

type Constant struct{ N uint64 }

func (g Constant) Eval(v *Vars) []E {
	var c []E
	for i := uint64(0); i < g.N; i++ {
		c = append(c, ESub(v.Consts[i], v.Wires[i]))
	}
	return c
}

type PublicInput struct{}

func (PublicInput) Eval(v *Vars) []E {
	var c []E
	for i := 0; i < 4; i++ {
		c = append(c, ESub(v.Wires[i], EF(v.PIHash[i])))
	}
	return c
}

type Arithmetic struct{ N uint64 }

func (g Arithmetic) Eval(v *Vars) []E {
	var c []E
	c0, c1 := v.Consts[0], v.Consts[1]
	for i := uint64(0); i < g.N; i++ {
		m0, m1, ad, out := v.Wires[4*i], v.Wires[4*i+1], v.Wires[4*i+2], v.Wires[4*i+3]
		comp := EAdd(EMul(EMul(m0, m1), c0), EMul(ad, c1))
		c = append(c, ESub(out, comp))
	}
	return c
}

type ArithmeticExt struct{ N uint64 }

func (g ArithmeticExt) Eval(v *Vars) []E {
	var c []E
	c0, c1 := v.Consts[0], v.Consts[1]
	for i := uint64(0); i < g.N; i++ {
		m0, m1, ad, out := v.alg(8*i), v.alg(8*i+2), v.alg(8*i+4), v.alg(8*i+6)
		comp := AAdd(AScal(AMul(m0, m1), c0), AScal(ad, c1))
		c = pushA(c, ASub(out, comp))
	}
	return c
}

type MulExt struct{ N uint64 }

func (g MulExt) Eval(v *Vars) []E {
	var c []E
	c0 := v.Consts[0]
	for i := uint64(0); i < g.N; i++ {
		m0, m1, out := v.alg(6*i), v.alg(6*i+2), v.alg(6*i+4)
		c = pushA(c, ASub(out, AScal(AMul(m0, m1), c0)))
	}
	return c
}

type BaseSum struct{ Limbs, Base uint64 }

func (g BaseSum) Eval(v *Vars) []E {
	sum := v.Wires[0]
	limbs := v.Wires[1 : 1+g.Limbs]
	comp := EReduceWithPowers(limbs, EF(g.Base))
	c := []E{ESub(comp, sum)}
	for _, l := range limbs {
		acc := EOne
		for i := uint64(0); i < g.Base; i++ {
			acc = EMul(acc, ESub(l, EF(i)))
		}
		c = append(c, acc)
	}
	return c
}

type RandomAccess struct{ Bits, Copies, Extra uint64 }

func (g RandomAccess) Eval(v *Vars) []E {
	var c []E
	vec := uint64(1) << g.Bits
	routed := (2+vec)*g.Copies + g.Extra
	for cp := uint64(0); cp < g.Copies; cp++ {
		base := (2 + vec) * cp
		access, claimed := v.Wires[base], v.Wires[base+1]
		items := append([]E{}, v.Wires[base+2:base+2+vec]...)
		bitsW := v.Wires[routed+cp*g.Bits : routed+cp*g.Bits+g.Bits]
		for _, b := range bitsW {
			c = append(c, EMul(b, ESub(b, EOne)))
		}
		rec := EZero
		for i := len(bitsW) - 1; i >= 0; i-- {
			rec = EAdd(EAdd(rec, rec), bitsW[i])
		}
		c = append(c, ESub(rec, access))
		for _, b := range bitsW {
			var nx []E
			for i := 0; i < len(items); i += 2 {
				x, y := items[i], items[i+1]
				nx = append(nx, EAdd(x, EMul(b, ESub(y, x))))
			}
			items = nx
		}
		c = append(c, ESub(items[0], claimed))
	}
	for i := uint64(0); i < g.Extra; i++ {
		c = append(c, ESub(v.Consts[i], v.Wires[(2+vec)*g.Copies+i]))
	}
	return c
}

type Reducing struct{ N uint64 }

func (g Reducing) Eval(v *Vars) []E {
	var c []E
	out, alpha, old := uint64(0), v.alg(2), v.alg(4)
	startC := uint64(6)
	startA := startC + g.N
	acc := old
	for i := uint64(0); i < g.N; i++ {
		var ai A
		if i == g.N-1 {
			ai = v.alg(out)
		} else {
			ai = v.alg(startA + 2*i)
		}
		coeff := AFromE(v.Wires[startC+i])
		c = pushA(c, ASub(AAdd(AMul(acc, alpha), coeff), ai))
		acc = ai
	}
	return c
}

type ReducingExt struct{ N uint64 }

func (g ReducingExt) Eval(v *Vars) []E {
	var c []E
	alpha, old := v.alg(2), v.alg(4)
	startC := uint64(6)
	startA := startC + 2*g.N
	acc := old
	for i := uint64(0); i < g.N; i++ {
		var ai A
		if i == g.N-1 {
			ai = v.alg(0)
		} else {
			ai = v.alg(startA + 2*i)
		}
		coeff := v.alg(startC + 2*i)
		c = pushA(c, ASub(AAdd(AMul(acc, alpha), coeff), ai))
		acc = ai
	}
	return c
}

type Exponentiation struct{ Bits uint64 }

func (g Exponentiation) Eval(v *Vars) []E {
	var c []E
	base := v.Wires[0]
	pb := v.Wires[1 : 1+g.Bits]
	out := v.Wires[1+g.Bits]
	iv := v.Wires[2+g.Bits : 2+2*g.Bits]
	for i := uint64(0); i < g.Bits; i++ {
		prev := EOne
		if i > 0 {
			prev = EMul(iv[i-1], iv[i-1])
		}
		cur := pb[g.Bits-i-1]
		notCur := ESub(EOne, cur)
		comp := EMul(prev, EAdd(EMul(cur, base), notCur))
		c = append(c, ESub(comp, iv[i]))
	}
	c = append(c, ESub(out, iv[g.Bits-1]))
	return c
}

type CosetInterp struct {
	SubgroupBits, Degree uint64
	Weights              []F
}

func partialInterp(dom []F, vals []A, w []F, pt A, e0, p0 A) (A, A) {
	ev, pr := e0, p0
	for i := range vals {
		term := ASub(pt, AFromE(EF(dom[i])))
		nev := AAdd(AMul(ev, term), AMul(AScal(vals[i], EF(w[i])), pr))
		pr = AMul(pr, term)
		ev = nev
	}
	return ev, pr
}
func (g CosetInterp) Eval(v *Vars) []E {
	var c []E
	np := uint64(1) << g.SubgroupBits
	startVals := uint64(1)
	startEP := startVals + np*2
	startEV := startEP + 2
	startInt := startEV + 2
	nInt := (np - 2) / (g.Degree - 1)
	startShifted := startInt + 2*2*nInt
	shift := v.Wires[0]
	ep := v.alg(startEP)
	sep := v.alg(startShifted)
	c = pushA(c, ASub(ep, AScal(sep, shift)))
	rootU := PrimitiveRootOfUnity(g.SubgroupBits)
	dom := make([]F, np)
	dom[0] = 1
	for i := uint64(1); i < np; i++ {
		dom[i] = Mul(dom[i-1], rootU)
	}
	vals := make([]A, np)
	for i := uint64(0); i < np; i++ {
		vals[i] = v.alg(startVals + 2*i)
	}
	ev, pr := partialInterp(dom[:g.Degree], vals[:g.Degree], g.Weights[:g.Degree], sep, AZero, AOne)
	for i := uint64(0); i < nInt; i++ {
		ie := v.alg(startInt + 2*i)
		ip := v.alg(startInt + 2*(nInt+i))
		c = pushA(c, ASub(ie, ev))
		c = pushA(c, ASub(ip, pr))
		s := 1 + (g.Degree-1)*(i+1)
		e := s + g.Degree - 1
		if e > np {
			e = np
		}
		ev, pr = partialInterp(dom[s:e], vals[s:e], g.Weights[s:e], sep, ie, ip)
	}
	evv := v.alg(startEV)
	c = pushA(c, ASub(evv, ev))
	return c
}

type PoseidonMds struct{}

func (PoseidonMds) Eval(v *Vars) []E {
	var c []E
	var in [12]A
	for i := uint64(0); i < 12; i++ {
		in[i] = v.alg(2 * i)
	}
	for r := uint64(0); r < 12; r++ {
		acc := AZero
		for i := uint64(0); i < 12; i++ {
			acc = AAdd(acc, AScal(in[(i+r)%12], EF(GL.Circ[i])))
		}
		acc = AAdd(acc, AScal(in[r], EF(GL.Diag[r])))
		out := v.alg(2 * (12 + r))
		c = pushA(c, ASub(out, acc))
	}
	return c
}

// ---------- gate id parsing (plonky2 Debug formats) ----------
var reNum = regexp.MustCompile(`[0-9]+`)

func ParseGate(id string) (Gate, error) {
	num := func(key string) (uint64, error) {
		i := strings.Index(id, key+": ")
		if i < 0 {
			return 0, fmt.Errorf("no %s in %q", key, id)
		}
		m := reNum.FindString(id[i+len(key)+2:])
		return strconv.ParseUint(m, 10, 64)
	}
	must := func(keys ...string) []uint64 {
		var o []uint64
		for _, k := range keys {
			n, err := num(k)
			if err != nil {
				panic(err)
			}
			o = append(o, n)
		}
		return o
	}
	switch {
	case id == "NoopGate":
		return Noop{}, nil
	case id == "PublicInputGate":
		return PublicInput{}, nil
	case strings.HasPrefix(id, "ConstantGate {"):
		return Constant{must("num_consts")[0]}, nil
	case strings.HasPrefix(id, "ArithmeticGate {"):
		return Arithmetic{must("num_ops")[0]}, nil
	case strings.HasPrefix(id, "ArithmeticExtensionGate {"):
		return ArithmeticExt{must("num_ops")[0]}, nil
	case strings.HasPrefix(id, "MulExtensionGate {"):
		return MulExt{must("num_ops")[0]}, nil
	case strings.HasPrefix(id, "BaseSumGate {"):
		n := must("num_limbs", "Base")
		return BaseSum{n[0], n[1]}, nil
	case strings.HasPrefix(id, "RandomAccessGate {") && strings.HasSuffix(id, "<D=2>"):
		n := must("bits", "num_copies", "num_extra_constants")
		return RandomAccess{n[0], n[1], n[2]}, nil
	case strings.HasPrefix(id, "ReducingGate {"):
		return Reducing{must("num_coeffs")[0]}, nil
	case strings.HasPrefix(id, "ReducingExtensionGate {"):
		return ReducingExt{must("num_coeffs")[0]}, nil
	case strings.HasPrefix(id, "ExponentiationGate {") && strings.HasSuffix(id, "<D=2>"):
		return Exponentiation{must("num_power_bits")[0]}, nil
	case strings.HasPrefix(id, "PoseidonMdsGate("):
		return PoseidonMds{}, nil
	case strings.HasPrefix(id, "PoseidonGate("):
		return PoseidonGate{}, nil
	case strings.HasPrefix(id, "CosetInterpolationGate {") && strings.HasSuffix(id, "<D=2>"):
		n := must("subgroup_bits", "degree")
		i := strings.Index(id, "[")
		j := strings.Index(id, "]")
		var w []F
		for _, s := range strings.Split(id[i+1:j], ",") {
			x, err := strconv.ParseUint(strings.TrimSpace(s), 10, 64)
			if err != nil {
				return nil, err
			}
			w = append(w, x)
		}
		return CosetInterp{n[0], n[1], w}, nil
	}
	return nil, fmt.Errorf("unsupported gate %q", id)
}

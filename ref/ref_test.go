package ref_test

import (
	"testing"

	"verif/corp"
	"verif/ref"

	"github.com/consensys/gnark-crypto/ecc/bn254/fr"
)

// Known-answer and real-proof validation of the reference verifier (trust basis of the oracle).
func TestRefKATs(t *testing.T) {
	// plonky2's published all-zero Poseidon vector
	z := ref.PoseidonGL([12]ref.F{})
	want := []uint64{0x3c18a9786cb0b359, 0xc4055e3364a246c3, 0x7953db0ab48808f4, 0xc71603f33a1144ca}
	for i, w := range want {
		if z[i] != w {
			t.Fatalf("zero vector[%d] = %#x want %#x", i, z[i], w)
		}
	}
	// iden3/circomlib poseidon([1,2,3]) with t=4
	var st [4]fr.Element
	st[1].SetUint64(1)
	st[2].SetUint64(2)
	st[3].SetUint64(3)
	out := ref.PoseidonBN(st)
	if out[0].String() != "6542985608222806190361240322586112750744169038454362455181422643027100751666" {
		t.Fatalf("bn254 KAT: %s", out[0].String())
	}
	// fast schedule == naive schedule
	var s [12]ref.F
	var se [12]ref.E
	for k := 0; k < 50; k++ {
		for i := range s {
			s[i] = uint64(i*7919+13+k) * 0x9e3779b97f4a7c15 % ref.P
			se[i] = ref.EF(s[i])
		}
		n, f := ref.PoseidonGL(s), ref.PoseidonFastE(se)
		for i := range n {
			if f[i] != ref.EF(n[i]) {
				t.Fatalf("fast != naive at %d", i)
			}
		}
	}
}

func TestRefAcceptsCorpus(t *testing.T) {
	for _, n := range corp.Names {
		r := corp.LoadRef(n)
		if err := ref.Verify(&r.C, &r.P, &r.V); err != nil {
			t.Fatalf("%s: %v", n, err)
		}
		if n == "A1" {
			ch := ref.GetChallenges(&r.C, &r.P, &r.V, ref.HashNoPadGL(r.P.PublicInputs))
			if ch.Betas[0] != 13723612720980423225 || ch.PowResponse != 57752885224107 {
				t.Fatalf("challenge constants of tests/fri_test.go not reproduced: %d %d", ch.Betas[0], ch.PowResponse)
			}
		}
		r.P.Proof.Openings.Wires[3][0] ^= 1
		if ref.Verify(&r.C, &r.P, &r.V) == nil {
			t.Fatalf("%s: perturbed wire accepted", n)
		}
		r.P.Proof.Openings.Wires[3][0] ^= 1
		r.P.Proof.OpeningProof.QueryRoundProofs[5].Steps[1].Evals[3][1] ^= 1
		if ref.Verify(&r.C, &r.P, &r.V) == nil {
			t.Fatalf("%s: perturbed step eval accepted", n)
		}
	}
}

// Package ref: independent native reference for the plonky2 (PoseidonBN128 config) verifier. PROTOTYPE.
package ref

import (
	"math/big"
	"math/bits"
)

const P uint64 = 0xffffffff00000001

type F = uint64

func Add(a, b F) F {
	s, c := bits.Add64(a, b, 0)
	if c != 0 || s >= P {
		s -= P
	}
	return s
}
func Sub(a, b F) F {
	if a >= b {
		return a - b
	}
	return a + (P - b)
}
func Neg(a F) F { return Sub(0, a) }
func Mul(a, b F) F {
	hi, lo := bits.Mul64(a, b)
	_, r := bits.Div64(hi, lo, P) // hi < P because a,b < P
	return r
}
func Exp(a F, e uint64) F {
	r := F(1)
	for e > 0 {
		if e&1 == 1 {
			r = Mul(r, a)
		}
		a = Mul(a, a)
		e >>= 1
	}
	return r
}
func Inv(a F) F {
	if a == 0 {
		panic("ref: inverse of zero")
	}
	return Exp(a, P-2)
}
func FromBig(b *big.Int) F {
	return new(big.Int).Mod(b, new(big.Int).SetUint64(P)).Uint64()
}

// quadratic extension GF(p^2) = GF(p)[X]/(X^2-7)
type E [2]F

const W F = 7

var EZero = E{0, 0}
var EOne = E{1, 0}

func EF(a F) E         { return E{a, 0} }
func EAdd(a, b E) E    { return E{Add(a[0], b[0]), Add(a[1], b[1])} }
func ESub(a, b E) E    { return E{Sub(a[0], b[0]), Sub(a[1], b[1])} }
func ENeg(a E) E       { return E{Neg(a[0]), Neg(a[1])} }
func EScal(a E, s F) E { return E{Mul(a[0], s), Mul(a[1], s)} }
func EMul(a, b E) E {
	return E{Add(Mul(a[0], b[0]), Mul(W, Mul(a[1], b[1]))), Add(Mul(a[0], b[1]), Mul(a[1], b[0]))}
}
func EInv(a E) E {
	// 1/(a0 + a1 X) = (a0 - a1 X)/(a0^2 - 7 a1^2)
	n := Sub(Mul(a[0], a[0]), Mul(W, Mul(a[1], a[1])))
	ni := Inv(n)
	return E{Mul(a[0], ni), Mul(Neg(a[1]), ni)}
}
func EDiv(a, b E) E { return EMul(a, EInv(b)) }
func EExp(a E, e uint64) E {
	r := EOne
	for e > 0 {
		if e&1 == 1 {
			r = EMul(r, a)
		}
		a = EMul(a, a)
		e >>= 1
	}
	return r
}
func EExpPow2(a E, k uint64) E {
	for i := uint64(0); i < k; i++ {
		a = EMul(a, a)
	}
	return a
}

// sum_i terms[i] * alpha^i
func EReduceWithPowers(terms []E, alpha E) E {
	acc := EZero
	for i := len(terms) - 1; i >= 0; i-- {
		acc = EAdd(EMul(acc, alpha), terms[i])
	}
	return acc
}

// degree-2 algebra over E: A = E[Y]/(Y^2 - 7)
type A [2]E

var AZero = A{EZero, EZero}
var AOne = A{EOne, EZero}

func AFromE(a E) A     { return A{a, EZero} }
func AAdd(a, b A) A    { return A{EAdd(a[0], b[0]), EAdd(a[1], b[1])} }
func ASub(a, b A) A    { return A{ESub(a[0], b[0]), ESub(a[1], b[1])} }
func AScal(a A, s E) A { return A{EMul(a[0], s), EMul(a[1], s)} }
func AMul(a, b A) A {
	w := EF(W)
	return A{EAdd(EMul(a[0], b[0]), EMul(w, EMul(a[1], b[1]))), EAdd(EMul(a[0], b[1]), EMul(a[1], b[0]))}
}

// roots of unity
const TwoAdicity = 32
const PowerOfTwoGenerator F = 1753635133440165772
const MultiplicativeGenerator F = 7

func PrimitiveRootOfUnity(nLog uint64) F {
	if nLog > TwoAdicity {
		panic("nLog too large")
	}
	g := PowerOfTwoGenerator
	for i := uint64(0); i < TwoAdicity-nLog; i++ {
		g = Mul(g, g)
	}
	return g
}
func ReverseBits(x uint64, n uint64) uint64 {
	if n == 0 {
		return 0
	}
	return bits.Reverse64(x) >> (64 - n)
}

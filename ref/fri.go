package ref

import (
	"fmt"
	"math/bits"

	"github.com/consensys/gnark-crypto/ecc/bn254/fr"
)

func VerifyMerkle(leaf []F, index uint64, cap []fr.Element, sib []fr.Element) error {
	d := HashOrNoopBN(leaf)
	for _, s := range sib {
		if index&1 == 1 {
			d = TwoToOneBN(s, d)
		} else {
			d = TwoToOneBN(d, s)
		}
		index >>= 1
	}
	if index >= uint64(len(cap)) {
		return fmt.Errorf("cap index %d out of range", index)
	}
	if !d.Equal(&cap[index]) {
		return fmt.Errorf("merkle root mismatch at cap slot %d", index)
	}
	return nil
}

func hs(ss []string) []fr.Element {
	o := make([]fr.Element, len(ss))
	for i, s := range ss {
		o[i] = HFromString(s)
	}
	return o
}

type polyInfo struct{ oracle, idx uint64 }

func friAllPolys(cd *Common) (all []polyInfo, zsOnly []polyInfo) {
	nPre := cd.NumConstants + cd.Config.NumRoutedWires
	for i := uint64(0); i < nPre; i++ {
		all = append(all, polyInfo{0, i})
	}
	for i := uint64(0); i < cd.Config.NumWires; i++ {
		all = append(all, polyInfo{1, i})
	}
	for i := uint64(0); i < cd.Config.NumChallenges*(1+cd.NumPartialProducts); i++ {
		all = append(all, polyInfo{2, i})
	}
	for i := uint64(0); i < cd.Config.NumChallenges*cd.QuotientDegreeFactor; i++ {
		all = append(all, polyInfo{3, i})
	}
	for i := uint64(0); i < cd.Config.NumChallenges; i++ {
		zsOnly = append(zsOnly, polyInfo{2, i})
	}
	return
}

func ComputeEvaluation(x F, within uint64, arityBits uint64, evals []E, beta E) E {
	arity := uint64(1) << arityBits
	g := PrimitiveRootOfUnity(arityBits)
	perm := make([]E, arity)
	for i := uint64(0); i < arity; i++ {
		perm[ReverseBits(i, arityBits)] = evals[i]
	}
	rev := ReverseBits(within, arityBits)
	start := Mul(x, Exp(g, arity-rev))
	pts := make([]E, arity)
	cur := start
	for i := range pts {
		pts[i] = EF(cur)
		cur = Mul(cur, g)
	}
	// barycentric interpolation
	for i := range pts {
		if pts[i] == beta {
			return perm[i]
		}
	}
	lx := EOne
	for i := range pts {
		lx = EMul(lx, ESub(beta, pts[i]))
	}
	sum := EZero
	for i := range pts {
		w := EOne
		for j := range pts {
			if i != j {
				w = EMul(w, ESub(pts[i], pts[j]))
			}
		}
		sum = EAdd(sum, EDiv(perm[i], EMul(w, ESub(beta, pts[i]))))
	}
	return EMul(lx, sum)
}

func VerifyFri(cd *Common, p *ProofWithPIs, vk *VerifierOnly, ch *Challenges) error {
	fp := &cd.FriParams
	op := &p.Proof.OpeningProof
	// PoW
	if uint64(bits.LeadingZeros64(ch.PowResponse)) < fp.Config.ProofOfWorkBits {
		return fmt.Errorf("pow: response %d has too few leading zeros", ch.PowResponse)
	}
	if uint64(len(op.QueryRoundProofs)) != fp.Config.NumQueryRounds {
		return fmt.Errorf("query round count")
	}
	all, zsOnly := friAllPolys(cd)
	os := &p.Proof.Openings
	var b0 []E
	for _, l := range [][][2]uint64{os.Constants, os.PlonkSigmas, os.Wires, os.PlonkZs, os.PartialProducts, os.QuotientPolys} {
		b0 = append(b0, es(l)...)
	}
	b1 := es(os.PlonkZsNext)
	red := []E{EReduceWithPowers(b0, ch.FriAlpha), EReduceWithPowers(b1, ch.FriAlpha)}
	g := PrimitiveRootOfUnity(fp.DegreeBits)
	points := []E{ch.Zeta, EScal(ch.Zeta, g)}
	batches := [][]polyInfo{all, zsOnly}
	caps := [][]fr.Element{hs(vk.ConstantsSigmasCap), hs(p.Proof.WiresCap), hs(p.Proof.ZsCap), hs(p.Proof.QuotientCap)}
	nLog := fp.DegreeBits + fp.Config.RateBits
	for qi, xIndex := range ch.QueryIndices {
		rp := &op.QueryRoundProofs[qi]
		if len(rp.InitialTreesProof.EvalsProofs) != 4 {
			return fmt.Errorf("round %d: eval proofs count", qi)
		}
		for t := 0; t < 4; t++ {
			ep := &rp.InitialTreesProof.EvalsProofs[t]
			if err := VerifyMerkle(ep.Leaf, xIndex, caps[t], hs(ep.Proof.Siblings)); err != nil {
				return fmt.Errorf("round %d tree %d: %w", qi, t, err)
			}
		}
		x := Mul(MultiplicativeGenerator, Exp(PrimitiveRootOfUnity(nLog), ReverseBits(xIndex, nLog)))
		// combine initial
		sum := EZero
		for bi := range batches {
			var evs []E
			for _, pi := range batches[bi] {
				evs = append(evs, EF(rp.InitialTreesProof.EvalsProofs[pi.oracle].Leaf[pi.idx]))
			}
			re := EReduceWithPowers(evs, ch.FriAlpha)
			num := ESub(re, red[bi])
			den := ESub(EF(x), points[bi])
			sum = EMul(sum, EExp(ch.FriAlpha, uint64(len(evs))))
			sum = EAdd(sum, EDiv(num, den))
		}
		old := sum
		idx := xIndex
		sx := x
		if len(rp.Steps) != len(fp.ReductionArityBits) {
			return fmt.Errorf("round %d: steps count", qi)
		}
		for si, ab := range fp.ReductionArityBits {
			arity := uint64(1) << ab
			evals := es(rp.Steps[si].Evals)
			if uint64(len(evals)) != arity {
				return fmt.Errorf("round %d step %d: evals count", qi, si)
			}
			coset := idx >> ab
			within := idx & (arity - 1)
			if evals[within] != old {
				return fmt.Errorf("round %d step %d: consistency check failed", qi, si)
			}
			old = ComputeEvaluation(sx, within, ab, evals, ch.FriBetas[si])
			var flat []F
			for _, e := range evals {
				flat = append(flat, e[0], e[1])
			}
			if err := VerifyMerkle(flat, coset, hs(op.CommitPhaseMerkleCaps[si]), hs(rp.Steps[si].MerkleProof.Siblings)); err != nil {
				return fmt.Errorf("round %d step %d: %w", qi, si, err)
			}
			for j := uint64(0); j < ab; j++ {
				sx = Mul(sx, sx)
			}
			idx = coset
		}
		fin := EZero
		co := es(op.FinalPoly.Coeffs)
		for i := len(co) - 1; i >= 0; i-- {
			fin = EAdd(EMul(fin, EF(sx)), co[i])
		}
		if fin != old {
			return fmt.Errorf("round %d: final polynomial mismatch", qi)
		}
	}
	return nil
}

func GetChallenges(cd *Common, p *ProofWithPIs, vk *VerifierOnly, piHash [4]F) *Challenges {
	var c Challenger
	obsH := func(h fr.Element) { c.ObserveMany(HashToVec(h)) }
	obsCap := func(cap []string) {
		for _, s := range cap {
			obsH(HFromString(s))
		}
	}
	obsH(HFromString(vk.CircuitDigest))
	c.ObserveMany(piHash[:])
	obsCap(p.Proof.WiresCap)
	nc := int(cd.Config.NumChallenges)
	ch := &Challenges{}
	ch.Betas = c.GetN(nc)
	ch.Gammas = c.GetN(nc)
	obsCap(p.Proof.ZsCap)
	ch.Alphas = c.GetN(nc)
	obsCap(p.Proof.QuotientCap)
	ch.Zeta = c.GetE()
	os := &p.Proof.Openings
	for _, l := range [][][2]uint64{os.Constants, os.PlonkSigmas, os.Wires, os.PlonkZs, os.PartialProducts, os.QuotientPolys, os.PlonkZsNext} {
		for _, e := range l {
			c.ObserveE(E{e[0], e[1]})
		}
	}
	ch.FriAlpha = c.GetE()
	for _, cap := range p.Proof.OpeningProof.CommitPhaseMerkleCaps {
		obsCap(cap)
		ch.FriBetas = append(ch.FriBetas, c.GetE())
	}
	for _, e := range p.Proof.OpeningProof.FinalPoly.Coeffs {
		c.ObserveE(E{e[0], e[1]})
	}
	c.Observe(p.Proof.OpeningProof.PowWitness)
	ch.PowResponse = c.Get()
	// plonky2 passes common_data.config.fri_config (not fri_params.config) to fri_challenges
	lde := uint64(1) << (cd.FriParams.DegreeBits + cd.Config.FriConfig.RateBits)
	for i := uint64(0); i < cd.Config.FriConfig.NumQueryRounds; i++ {
		ch.QueryIndices = append(ch.QueryIndices, c.Get()%lde)
	}
	return ch
}

func Verify(cd *Common, p *ProofWithPIs, vk *VerifierOnly) error {
	gates := make([]Gate, len(cd.Gates))
	for i, id := range cd.Gates {
		g, err := ParseGate(id)
		if err != nil {
			return err
		}
		gates[i] = g
	}
	for _, x := range p.PublicInputs {
		if x >= P {
			return fmt.Errorf("non-canonical public input")
		}
	}
	piHash := HashNoPadGL(p.PublicInputs)
	ch := GetChallenges(cd, p, vk, piHash)
	if err := CheckPlonk(cd, gates, &p.Proof.Openings, ch, piHash); err != nil {
		return err
	}
	return VerifyFri(cd, p, vk, ch)
}

package ref

import (
	"fmt"
	"math/bits"

	"github.com/consensys/gnark-crypto/ecc/bn254/fr"
)

func VerifyMerkle(leaf []F, index uint64, cap []fr.Element, sib []fr.Element) error {
	d := HashOrNoopBN(leaf)
	for _, s := range sib {
		if index&1 == 1 {
			d = TwoToOneBN(s, d)
		} else {
			d = TwoToOneBN(d, s)
		}
		index >>= 1
	}
	if index >= uint64(len(cap)) {
		return fmt.Errorf("cap index %d out of range", index)
	}
	if !d.Equal(&cap[index]) {
		return fmt.Errorf("merkle root mismatch at cap slot %d", index)
	}
	return nil
}

func hs(ss []string) []fr.Element {
	o := make([]fr.Element, len(ss))
	for i, s := range ss {
		o[i] = HFromString(s)
	}
	return o
}

type polyInfo struct{ oracle, idx uint64 }

func friAllPolys(cd *Common) (all []polyInfo, zsOnly []polyInfo) {
	nPre := cd.NumConstants + cd.Config.NumRoutedWires
	for i := uint64(0); i < nPre; i++ {
		all = append(all, polyInfo{0, i})
	}
	for i := uint64(0); i < cd.Config.NumWires; i++ {
		all = append(all, polyInfo{1, i})
	}
	for i := uint64(0); i < cd.Config.NumChallenges*(1+cd.NumPartialProducts); i++ {
		all = append(all, polyInfo{2, i})
	}
	for i := uint64(0); i < cd.Config.NumChallenges*cd.QuotientDegreeFactor; i++ {
		all = append(all, polyInfo{3, i})
	}
	for i := uint64(0); i < cd.Config.NumChallenges; i++ {
		zsOnly = append(zsOnly, polyInfo{2, i})
	}
	return
}

func ComputeEvaluation(x F, within uint64, arityBits uint64, evals []E, beta E) E {
	arity := uint64(1) << arityBits
	g := PrimitiveRootOfUnity(arityBits)
	perm := make([]E, arity)
	for i := uint64(0); i < arity; i++ {
		perm[ReverseBits(i, arityBits)] = evals[i]
	}
	rev := ReverseBits(within, arityBits)
	start := Mul(x, Exp(g, arity-rev))
	pts := make([]E, arity)
	cur := start
	for i := range pts {
		pts[i] = EF(cur)
		cur = Mul(cur, g)
	}
	// barycentric interpolation
	for i := range pts {
		if pts[i] == beta {
			return perm[i]
		}
	}
	lx := EOne
	for i := range pts {
		lx = EMul(lx, ESub(beta, pts[i]))
	}
	sum := EZero
	for i := range pts {
		w := EOne
		for j := range pts {
			if i != j {
				w = EMul(w, ESub(pts[i], pts[j]))
			}
		}
		sum = EAdd(sum, EDiv(perm[i], EMul(w, ESub(beta, pts[i]))))
	}
	return EMul(lx, sum)
}

// RoundCtx is everything a FRI query round is checked against.
type RoundCtx struct {
	CD         *Common
	Caps       [][]fr.Element // initial oracle caps: constants/sigmas, wires, zs/partial products, quotient
	CommitCaps [][]fr.Element
	FinalPoly  []E
	Alpha      E
	Betas      []E
	Reduced    []E // reduced openings per batch
	Points     []E // opening point per batch (zeta, g*zeta)
}

// ReducedOpenings computes the alpha-reduced opening batches and the opening points.
func ReducedOpenings(cd *Common, os *OpeningSet, alpha, zeta E) (red, points []E) {
	var b0 []E
	for _, l := range [][][2]uint64{os.Constants, os.PlonkSigmas, os.Wires, os.PlonkZs, os.PartialProducts, os.QuotientPolys} {
		b0 = append(b0, es(l)...)
	}
	b1 := es(os.PlonkZsNext)
	red = []E{EReduceWithPowers(b0, alpha), EReduceWithPowers(b1, alpha)}
	g := PrimitiveRootOfUnity(cd.FriParams.DegreeBits)
	points = []E{zeta, EScal(zeta, g)}
	return
}

// SubgroupX returns g * w^bitreverse(index) for the LDE domain of size 2^nLog.
func SubgroupX(xIndex, nLog uint64) F {
	return Mul(MultiplicativeGenerator, Exp(PrimitiveRootOfUnity(nLog), ReverseBits(xIndex, nLog)))
}

// CombineInitial computes the combined quotient value of the initial-tree evaluations at x.
func CombineInitial(ctx *RoundCtx, rp *QueryRound, x F) E {
	all, zsOnly := friAllPolys(ctx.CD)
	batches := [][]polyInfo{all, zsOnly}
	sum := EZero
	for bi := range batches {
		var evs []E
		for _, pi := range batches[bi] {
			evs = append(evs, EF(rp.InitialTreesProof.EvalsProofs[pi.oracle].Leaf[pi.idx]))
		}
		re := EReduceWithPowers(evs, ctx.Alpha)
		num := ESub(re, ctx.Reduced[bi])
		den := ESub(EF(x), ctx.Points[bi])
		sum = EMul(sum, EExp(ctx.Alpha, uint64(len(evs))))
		sum = EAdd(sum, EDiv(num, den))
	}
	return sum
}

// EvalPoly evaluates a polynomial with coefficients co at x (Horner).
func EvalPoly(co []E, x E) E {
	fin := EZero
	for i := len(co) - 1; i >= 0; i-- {
		fin = EAdd(EMul(fin, x), co[i])
	}
	return fin
}

// CheckQueryRound checks one FRI query round.
func CheckQueryRound(ctx *RoundCtx, rp *QueryRound, xIndex uint64) error {
	fp := &ctx.CD.FriParams
	nLog := fp.DegreeBits + fp.Config.RateBits
	if len(rp.InitialTreesProof.EvalsProofs) != 4 {
		return fmt.Errorf("eval proofs count")
	}
	for t := 0; t < 4; t++ {
		ep := &rp.InitialTreesProof.EvalsProofs[t]
		if err := VerifyMerkle(ep.Leaf, xIndex, ctx.Caps[t], hs(ep.Proof.Siblings)); err != nil {
			return fmt.Errorf("tree %d: %w", t, err)
		}
	}
	x := SubgroupX(xIndex, nLog)
	old := CombineInitial(ctx, rp, x)
	idx := xIndex
	sx := x
	if len(rp.Steps) != len(fp.ReductionArityBits) {
		return fmt.Errorf("steps count")
	}
	for si, ab := range fp.ReductionArityBits {
		arity := uint64(1) << ab
		evals := es(rp.Steps[si].Evals)
		if uint64(len(evals)) != arity {
			return fmt.Errorf("step %d: evals count", si)
		}
		coset := idx >> ab
		within := idx & (arity - 1)
		if evals[within] != old {
			return fmt.Errorf("step %d: consistency check failed", si)
		}
		old = ComputeEvaluation(sx, within, ab, evals, ctx.Betas[si])
		var flat []F
		for _, e := range evals {
			flat = append(flat, e[0], e[1])
		}
		if err := VerifyMerkle(flat, coset, ctx.CommitCaps[si], hs(rp.Steps[si].MerkleProof.Siblings)); err != nil {
			return fmt.Errorf("step %d: %w", si, err)
		}
		for j := uint64(0); j < ab; j++ {
			sx = Mul(sx, sx)
		}
		idx = coset
	}
	if EvalPoly(ctx.FinalPoly, EF(sx)) != old {
		return fmt.Errorf("final polynomial mismatch")
	}
	return nil
}

func VerifyFri(cd *Common, p *ProofWithPIs, vk *VerifierOnly, ch *Challenges) error {
	fp := &cd.FriParams
	op := &p.Proof.OpeningProof
	// PoW
	if uint64(bits.LeadingZeros64(ch.PowResponse)) < fp.Config.ProofOfWorkBits {
		return fmt.Errorf("pow: response %d has too few leading zeros", ch.PowResponse)
	}
	if uint64(len(op.QueryRoundProofs)) != fp.Config.NumQueryRounds {
		return fmt.Errorf("query round count")
	}
	if len(ch.QueryIndices) != len(op.QueryRoundProofs) {
		return fmt.Errorf("query index count")
	}
	ctx := &RoundCtx{CD: cd, FinalPoly: es(op.FinalPoly.Coeffs), Alpha: ch.FriAlpha, Betas: ch.FriBetas}
	ctx.Reduced, ctx.Points = ReducedOpenings(cd, &p.Proof.Openings, ch.FriAlpha, ch.Zeta)
	ctx.Caps = [][]fr.Element{hs(vk.ConstantsSigmasCap), hs(p.Proof.WiresCap), hs(p.Proof.ZsCap), hs(p.Proof.QuotientCap)}
	for _, c := range op.CommitPhaseMerkleCaps {
		ctx.CommitCaps = append(ctx.CommitCaps, hs(c))
	}
	for qi, xIndex := range ch.QueryIndices {
		if err := CheckQueryRound(ctx, &op.QueryRoundProofs[qi], xIndex); err != nil {
			return fmt.Errorf("round %d: %w", qi, err)
		}
	}
	return nil
}

func GetChallenges(cd *Common, p *ProofWithPIs, vk *VerifierOnly, piHash [4]F) *Challenges {
	var c Challenger
	obsH := func(h fr.Element) { c.ObserveMany(HashToVec(h)) }
	obsCap := func(cap []string) {
		for _, s := range cap {
			obsH(HFromString(s))
		}
	}
	obsH(HFromString(vk.CircuitDigest))
	c.ObserveMany(piHash[:])
	obsCap(p.Proof.WiresCap)
	nc := int(cd.Config.NumChallenges)
	ch := &Challenges{}
	ch.Betas = c.GetN(nc)
	ch.Gammas = c.GetN(nc)
	obsCap(p.Proof.ZsCap)
	ch.Alphas = c.GetN(nc)
	obsCap(p.Proof.QuotientCap)
	ch.Zeta = c.GetE()
	os := &p.Proof.Openings
	for _, l := range [][][2]uint64{os.Constants, os.PlonkSigmas, os.Wires, os.PlonkZs, os.PartialProducts, os.QuotientPolys, os.PlonkZsNext} {
		for _, e := range l {
			c.ObserveE(E{e[0], e[1]})
		}
	}
	ch.FriAlpha = c.GetE()
	for _, cap := range p.Proof.OpeningProof.CommitPhaseMerkleCaps {
		obsCap(cap)
		ch.FriBetas = append(ch.FriBetas, c.GetE())
	}
	for _, e := range p.Proof.OpeningProof.FinalPoly.Coeffs {
		c.ObserveE(E{e[0], e[1]})
	}
	c.Observe(p.Proof.OpeningProof.PowWitness)
	ch.PowResponse = c.Get()
	// plonky2 passes common_data.config.fri_config (not fri_params.config) to fri_challenges
	lde := uint64(1) << (cd.FriParams.DegreeBits + cd.Config.FriConfig.RateBits)
	for i := uint64(0); i < cd.Config.FriConfig.NumQueryRounds; i++ {
		ch.QueryIndices = append(ch.QueryIndices, c.Get()%lde)
	}
	return ch
}

func Verify(cd *Common, p *ProofWithPIs, vk *VerifierOnly) error {
	gates := make([]Gate, len(cd.Gates))
	for i, id := range cd.Gates {
		g, err := ParseGate(id)
		if err != nil {
			return err
		}
		gates[i] = g
	}
	for _, x := range p.PublicInputs {
		if x >= P {
			return fmt.Errorf("non-canonical public input")
		}
	}
	piHash := HashNoPadGL(p.PublicInputs)
	ch := GetChallenges(cd, p, vk, piHash)
	if err := CheckPlonk(cd, gates, &p.Proof.Openings, ch, piHash); err != nil {
		return err
	}
	return VerifyFri(cd, p, vk, ch)
}

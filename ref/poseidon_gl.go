package ref

// Goldilocks Poseidon: naive schedule (plain round constants + full MDS every round).
// Constants are injected (prototype: read from the repo package; final: frozen copy).
type GLConsts struct {
	RC   [360]F
	Circ [12]F
	Diag [12]F
}

var GL GLConsts

func sbox7(x F) F {
	x2 := Mul(x, x)
	x3 := Mul(x2, x)
	x6 := Mul(x3, x3)
	return Mul(x6, x)
}
func mdsNaive(s [12]F) [12]F {
	var o [12]F
	for r := 0; r < 12; r++ {
		acc := F(0)
		for i := 0; i < 12; i++ {
			acc = Add(acc, Mul(s[(i+r)%12], GL.Circ[i]))
		}
		acc = Add(acc, Mul(s[r], GL.Diag[r]))
		o[r] = acc
	}
	return o
}
func PoseidonGL(st [12]F) [12]F {
	for r := 0; r < 30; r++ {
		for i := 0; i < 12; i++ {
			st[i] = Add(st[i], GL.RC[12*r+i])
		}
		if r < 4 || r >= 26 {
			for i := 0; i < 12; i++ {
				st[i] = sbox7(st[i])
			}
		} else {
			st[0] = sbox7(st[0])
		}
		st = mdsNaive(st)
	}
	return st
}

// hash_n_to_m_no_pad (overwrite mode, rate 8)
func HashNToMNoPad(in []F, m int) []F {
	var st [12]F
	for i := 0; i < len(in); i += 8 {
		for j := 0; j < 8 && i+j < len(in); j++ {
			st[j] = in[i+j]
		}
		st = PoseidonGL(st)
	}
	var out []F
	for {
		for i := 0; i < 8; i++ {
			out = append(out, st[i])
			if len(out) == m {
				return out
			}
		}
		st = PoseidonGL(st)
	}
}
func HashNoPadGL(in []F) [4]F {
	o := HashNToMNoPad(in, 4)
	return [4]F{o[0], o[1], o[2], o[3]}
}

// duplex challenger
type Challenger struct {
	st  [12]F
	in  []F
	out []F
}

func (c *Challenger) Observe(x F) {
	c.out = nil
	c.in = append(c.in, x)
	if len(c.in) == 8 {
		c.duplex()
	}
}
func (c *Challenger) ObserveMany(xs []F) {
	for _, x := range xs {
		c.Observe(x)
	}
}
func (c *Challenger) ObserveE(e E) { c.Observe(e[0]); c.Observe(e[1]) }
func (c *Challenger) duplex() {
	for i, x := range c.in {
		c.st[i] = x
	}
	c.in = nil
	c.st = PoseidonGL(c.st)
	c.out = append([]F{}, c.st[:8]...)
}
func (c *Challenger) Get() F {
	if len(c.in) != 0 || len(c.out) == 0 {
		c.duplex()
	}
	x := c.out[len(c.out)-1]
	c.out = c.out[:len(c.out)-1]
	return x
}
func (c *Challenger) GetN(n int) []F {
	o := make([]F, n)
	for i := range o {
		o[i] = c.Get()
	}
	return o
}
func (c *Challenger) GetE() E { a := c.Get(); b := c.Get(); return E{a, b} }

package ref

import "fmt"

const UnusedSelector = uint64(^uint32(0))

type Challenges struct {
	Betas, Gammas, Alphas []F
	Zeta                  E
	FriAlpha              E
	FriBetas              []E
	PowResponse           F
	QueryIndices          []uint64
}

func EvalGateConstraints(cd *Common, gates []Gate, v Vars) []E {
	cons := make([]E, cd.NumGateConstraints)
	nsel := uint64(len(cd.SelectorsInfo.Groups))
	for i, g := range gates {
		si := cd.SelectorsInfo.SelectorIndices[i]
		grp := cd.SelectorsInfo.Groups[si]
		s := v.Consts[si]
		f := EOne
		for j := grp.Start; j < grp.End; j++ {
			if j == uint64(i) {
				continue
			}
			f = EMul(f, ESub(EF(j), s))
		}
		if nsel > 1 {
			f = EMul(f, ESub(EF(UnusedSelector), s))
		}
		vv := Vars{Consts: v.Consts[nsel:], Wires: v.Wires, PIHash: v.PIHash}
		gc := g.Eval(&vv)
		for k, c := range gc {
			if uint64(k) >= cd.NumGateConstraints {
				panic("too many constraints")
			}
			cons[k] = EAdd(cons[k], EMul(c, f))
		}
	}
	return cons
}

func EvalVanishing(cd *Common, gates []Gate, os *OpeningSet, ch *Challenges, piHash [4]F) []E {
	consts, sigmas, wires := es(os.Constants), es(os.PlonkSigmas), es(os.Wires)
	zs, zsNext, pps := es(os.PlonkZs), es(os.PlonkZsNext), es(os.PartialProducts)
	x := ch.Zeta
	n := uint64(1) << cd.FriParams.DegreeBits
	cons := EvalGateConstraints(cd, gates, Vars{Consts: consts, Wires: wires, PIHash: piHash})
	// L_0(x) = (x^n - 1)/(n (x - 1))
	xn := EExpPow2(x, cd.FriParams.DegreeBits)
	l0 := EDiv(ESub(xn, EOne), EScal(ESub(x, EOne), n%P))
	var z1, ppTerms []E
	nc := cd.Config.NumChallenges
	np := cd.NumPartialProducts
	md := cd.QuotientDegreeFactor
	for i := uint64(0); i < nc; i++ {
		z1 = append(z1, EMul(l0, ESub(zs[i], EOne)))
		var num, den []E
		for j := uint64(0); j < cd.Config.NumRoutedWires; j++ {
			sid := EScal(x, cd.KIs[j])
			num = append(num, EAdd(EAdd(wires[j], EScal(sid, ch.Betas[i])), EF(ch.Gammas[i])))
			den = append(den, EAdd(EAdd(wires[j], EScal(sigmas[j], ch.Betas[i])), EF(ch.Gammas[i])))
		}
		accs := append([]E{zs[i]}, pps[i*np:(i+1)*np]...)
		accs = append(accs, zsNext[i])
		k := 0
		for s := uint64(0); s < uint64(len(num)); s += md {
			e := s + md
			if e > uint64(len(num)) {
				e = uint64(len(num))
			}
			np_, dp := EOne, EOne
			for t := s; t < e; t++ {
				np_ = EMul(np_, num[t])
				dp = EMul(dp, den[t])
			}
			if k+1 >= len(accs) {
				panic(fmt.Sprintf("partial product shape mismatch"))
			}
			ppTerms = append(ppTerms, ESub(EMul(accs[k], np_), EMul(accs[k+1], dp)))
			k++
		}
		if k != len(accs)-1 {
			panic("partial product count mismatch")
		}
	}
	terms := append(append(z1, ppTerms...), cons...)
	res := make([]E, nc)
	for i := len(terms) - 1; i >= 0; i-- {
		for j := uint64(0); j < nc; j++ {
			res[j] = EAdd(terms[i], EScal(res[j], ch.Alphas[j]))
		}
	}
	return res
}

func CheckPlonk(cd *Common, gates []Gate, os *OpeningSet, ch *Challenges, piHash [4]F) error {
	van := EvalVanishing(cd, gates, os, ch, piHash)
	xn := EExpPow2(ch.Zeta, cd.FriParams.DegreeBits)
	zh := ESub(xn, EOne)
	q := es(os.QuotientPolys)
	for i := range van {
		chunk := q[uint64(i)*cd.QuotientDegreeFactor : uint64(i+1)*cd.QuotientDegreeFactor]
		if van[i] != EMul(zh, EReduceWithPowers(chunk, xn)) {
			return fmt.Errorf("vanishing identity fails for challenge round %d", i)
		}
	}
	return nil
}

package ref

import (
	"math/big"

	"github.com/consensys/gnark-crypto/ecc/bn254/fr"
)

// PoseidonBN128 (iden3 optimised schedule, t=4, RF=8, RP=56). Constants injected.
type BNConsts struct {
	C []fr.Element // 88
	S []fr.Element // 392
	M [4][4]fr.Element
	P [4][4]fr.Element
}

var BN BNConsts

type H = fr.Element

func exp5(x *fr.Element) {
	var x2, x4 fr.Element
	x2.Square(x)
	x4.Square(&x2)
	x.Mul(&x4, x)
}
func bnMix(s [4]fr.Element, m *[4][4]fr.Element) [4]fr.Element {
	var o [4]fr.Element
	for i := 0; i < 4; i++ {
		for j := 0; j < 4; j++ {
			var t fr.Element
			t.Mul(&m[j][i], &s[j])
			o[i].Add(&o[i], &t)
		}
	}
	return o
}
func PoseidonBN(s [4]fr.Element) [4]fr.Element {
	const t, rf, rp = 4, 8, 56
	ark := func(it int) {
		for i := 0; i < t; i++ {
			s[i].Add(&s[i], &BN.C[it+i])
		}
	}
	ark(0)
	for i := 0; i < rf/2-1; i++ {
		for k := range s {
			exp5(&s[k])
		}
		ark((i + 1) * t)
		s = bnMix(s, &BN.M)
	}
	for k := range s {
		exp5(&s[k])
	}
	ark((rf / 2) * t)
	s = bnMix(s, &BN.P)
	for i := 0; i < rp; i++ {
		exp5(&s[0])
		s[0].Add(&s[0], &BN.C[(rf/2+1)*t+i])
		var n0 fr.Element
		for j := 0; j < t; j++ {
			var m fr.Element
			m.Mul(&BN.S[(t*2-1)*i+j], &s[j])
			n0.Add(&n0, &m)
		}
		for k := 1; k < t; k++ {
			var m fr.Element
			m.Mul(&s[0], &BN.S[(t*2-1)*i+t+k-1])
			s[k].Add(&s[k], &m)
		}
		s[0] = n0
	}
	for i := 0; i < rf/2-1; i++ {
		for k := range s {
			exp5(&s[k])
		}
		ark((rf/2+1)*t + rp + i*t)
		s = bnMix(s, &BN.M)
	}
	for k := range s {
		exp5(&s[k])
	}
	s = bnMix(s, &BN.M)
	return s
}

func packGL(chunk []F) fr.Element {
	b := new(big.Int)
	for k := len(chunk) - 1; k >= 0; k-- {
		b.Lsh(b, 64)
		b.Add(b, new(big.Int).SetUint64(chunk[k]))
	}
	var e fr.Element
	e.SetBigInt(b)
	return e
}

func HashNoPadBN(in []F) fr.Element {
	var s [4]fr.Element
	for i := 0; i < len(in); i += 9 {
		end := i + 9
		if end > len(in) {
			end = len(in)
		}
		chunk := in[i:end]
		for j, idx := 0, 0; j < len(chunk); j, idx = j+3, idx+1 {
			e := j + 3
			if e > len(chunk) {
				e = len(chunk)
			}
			s[idx+1] = packGL(chunk[j:e])
		}
		s = PoseidonBN(s)
	}
	return s[0]
}
func HashOrNoopBN(in []F) fr.Element {
	if len(in) <= 3 {
		return packGL(in)
	}
	return HashNoPadBN(in)
}
func TwoToOneBN(l, r fr.Element) fr.Element {
	var s [4]fr.Element
	s[2], s[3] = l, r
	return PoseidonBN(s)[0]
}

// hash -> goldilocks elements: little-endian 7-byte chunks (5 of them)
func HashToVec(h fr.Element) []F {
	var b big.Int
	h.BigInt(&b)
	mask := new(big.Int).SetUint64((1 << 56) - 1)
	var out []F
	for i := 0; i < 254; i += 56 {
		c := new(big.Int).Rsh(&b, uint(i))
		c.And(c, mask)
		out = append(out, c.Uint64())
	}
	return out
}
func HFromString(s string) fr.Element {
	b, ok := new(big.Int).SetString(s, 10)
	if !ok {
		panic("bad hash string " + s)
	}
	var e fr.Element
	e.SetBigInt(b)
	return e
}

package ref

import (
	"encoding/json"
	"os"
)

type OpeningSet struct {
	Constants       [][2]uint64 `json:"constants"`
	PlonkSigmas     [][2]uint64 `json:"plonk_sigmas"`
	Wires           [][2]uint64 `json:"wires"`
	PlonkZs         [][2]uint64 `json:"plonk_zs"`
	PlonkZsNext     [][2]uint64 `json:"plonk_zs_next"`
	PartialProducts [][2]uint64 `json:"partial_products"`
	QuotientPolys   [][2]uint64 `json:"quotient_polys"`
}
type MerkleProof struct {
	Siblings []string `json:"siblings"`
}
type EvalProof struct {
	Leaf  []uint64
	Proof MerkleProof
}

func (e *EvalProof) UnmarshalJSON(b []byte) error {
	var raw []json.RawMessage
	if err := json.Unmarshal(b, &raw); err != nil {
		return err
	}
	if err := json.Unmarshal(raw[0], &e.Leaf); err != nil {
		return err
	}
	return json.Unmarshal(raw[1], &e.Proof)
}

type QueryStep struct {
	Evals       [][2]uint64 `json:"evals"`
	MerkleProof MerkleProof `json:"merkle_proof"`
}
type QueryRound struct {
	InitialTreesProof struct {
		EvalsProofs []EvalProof `json:"evals_proofs"`
	} `json:"initial_trees_proof"`
	Steps []QueryStep `json:"steps"`
}
type ProofWithPIs struct {
	Proof struct {
		WiresCap     []string   `json:"wires_cap"`
		ZsCap        []string   `json:"plonk_zs_partial_products_cap"`
		QuotientCap  []string   `json:"quotient_polys_cap"`
		Openings     OpeningSet `json:"openings"`
		OpeningProof struct {
			CommitPhaseMerkleCaps [][]string   `json:"commit_phase_merkle_caps"`
			QueryRoundProofs      []QueryRound `json:"query_round_proofs"`
			FinalPoly             struct {
				Coeffs [][2]uint64 `json:"coeffs"`
			} `json:"final_poly"`
			PowWitness uint64 `json:"pow_witness"`
		} `json:"opening_proof"`
	} `json:"proof"`
	PublicInputs []uint64 `json:"public_inputs"`
}
type VerifierOnly struct {
	ConstantsSigmasCap []string `json:"constants_sigmas_cap"`
	CircuitDigest      string   `json:"circuit_digest"`
}
type FriConfig struct {
	RateBits        uint64 `json:"rate_bits"`
	CapHeight       uint64 `json:"cap_height"`
	ProofOfWorkBits uint64 `json:"proof_of_work_bits"`
	NumQueryRounds  uint64 `json:"num_query_rounds"`
}
type Common struct {
	Config struct {
		NumWires       uint64    `json:"num_wires"`
		NumRoutedWires uint64    `json:"num_routed_wires"`
		NumConstants   uint64    `json:"num_constants"`
		NumChallenges  uint64    `json:"num_challenges"`
		FriConfig      FriConfig `json:"fri_config"`
	} `json:"config"`
	FriParams struct {
		Config             FriConfig `json:"config"`
		Hiding             bool      `json:"hiding"`
		DegreeBits         uint64    `json:"degree_bits"`
		ReductionArityBits []uint64  `json:"reduction_arity_bits"`
	} `json:"fri_params"`
	Gates         []string `json:"gates"`
	SelectorsInfo struct {
		SelectorIndices []uint64 `json:"selector_indices"`
		Groups          []struct {
			Start uint64 `json:"start"`
			End   uint64 `json:"end"`
		} `json:"groups"`
	} `json:"selectors_info"`
	QuotientDegreeFactor uint64   `json:"quotient_degree_factor"`
	NumGateConstraints   uint64   `json:"num_gate_constraints"`
	NumConstants         uint64   `json:"num_constants"`
	NumPublicInputs      uint64   `json:"num_public_inputs"`
	KIs                  []uint64 `json:"k_is"`
	NumPartialProducts   uint64   `json:"num_partial_products"`
}

func LoadJSON(path string, v interface{}) {
	b, err := os.ReadFile(path)
	if err != nil {
		panic(err)
	}
	if err := json.Unmarshal(b, v); err != nil {
		panic(err)
	}
}
func es(x [][2]uint64) []E {
	o := make([]E, len(x))
	for i := range x {
		o[i] = E{x[i][0], x[i][1]}
	}
	return o
}
